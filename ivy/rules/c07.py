"""C07 — iv_main returns iff nothing is registered or quit.

Decided statically: the loop-object accounting (balance of the counters the
exit test reads, on all paths incl. failure paths), who writes them, and the
placement of the exit test.  Not decided: progress per wake-up.

Anchors are the exported API (iv_main, iv_*_register/unregister, iv_init), the
poll-method table slots, typed fields (iv_state.numobjs/quit/..., iv_task_.handler,
iv_timer_.list_expired, ...) and call *roles* computed from the call graph (a call
that may run user callbacks, may run task handlers, enters the kernel wait).  No
static helper name, local variable name, loop shape or expression text is matched.
"""
from ..core import AnalysisBroken, Inliner, canon, strip, lvalue_steps, norm_cond, forward, last_member, subst
from ..analyses import is_fail, path_to, describe
from .. import roles
from . import h07
from .h07 import counter_key, step_of, const_store

NUMOBJS = ('iv_state', 'numobjs')
QUIT = ('iv_state', 'quit')
COUNTERS = [NUMOBJS, ('iv_state', 'numfds'), ('iv_state', 'event_count'),
            ('iv_wait_thr_info', 'wait_count')]

# Object kinds whose registration changes the counters iv_main's exit test
# reads.  reg/unreg are API entry points.  `composite` kinds are analysed in
# terms of the registrations of their sub-objects: the analysis stops at the
# register/unregister API of every *other* kind and counts a symbolic +1/-1
# registration of that kind (whose own balance is an obligation of its own), so
# that a failure path that undoes a registration through the same API calls is
# balanced whatever the sub-kinds do internally.
KINDS = [
    dict(kind='fd', reg=['iv_fd_register'], unreg=['iv_fd_unregister']),
    dict(kind='fd-try', reg=['iv_fd_register_try'], unreg=['iv_fd_unregister']),
    dict(kind='timer', reg=['iv_timer_register'], unreg=['iv_timer_unregister'],
         discr=[('iv_timer_', 'index')],
         arms=[dict(key=('iv_timer_', 'index'), value=0, domain=(-1, 0, 1, 2, 3, 1000), delta=0,
                    reason='timer is in the expired batch: the timer runner already took it out of '
                           'the heap through iv_timer_unregister, which counted it')]),
    dict(kind='task', reg=['iv_task_register'], unreg=['iv_task_unregister']),
    dict(kind='event', reg=['iv_event_register'], unreg=['iv_event_unregister']),
    dict(kind='event-raw', reg=['iv_event_raw_register'], unreg=['iv_event_raw_unregister']),
    dict(kind='signal', reg=['iv_signal_register'], unreg=['iv_signal_unregister']),
    # leaf view of a wait interest (everything inlined down to the counters) ...
    dict(kind='wait-core', reg=['iv_wait_interest_register'], unreg=['iv_wait_interest_unregister']),
    # ... and the composite view, which also covers the failing spawn
    dict(kind='wait', reg=['iv_wait_interest_register', 'iv_wait_interest_register_spawn'],
         unreg=['iv_wait_interest_unregister'], composite=True),
    dict(kind='inotify', reg=['iv_inotify_register'], unreg=['iv_inotify_unregister'], optional=True),
]

# one-shot kinds: the runner takes the object out of its registered state and then calls its handler
ONE_SHOT = {
    'task': dict(record='iv_task_', link='list'),
    'timer': dict(record='iv_timer_', link='list_expired', heap=('iv_state', 'num_timers'), discr=[('iv_timer_', 'index')]),
}


def _fmt(d, names):
    return '{' + ', '.join('%s%+d' % (n, v) for n, v in zip(names, d) if v) + '}' if any(d) else '{0}'


def _sub_tokens(K):
    """{API function name: (token index, +1/-1)} and token names for a composite kind."""
    tok, names = {}, []
    for K2 in KINDS:
        if K2 is K or K2.get('composite') or set(K2['reg'] + K2['unreg']) & set(K['reg'] + K['unreg']):
            continue
        i = len(names)
        names.append('%s-registrations' % K2['kind'])
        for n in K2['reg']:
            tok.setdefault(n, (i, 1))
        for n in K2['unreg']:
            tok.setdefault(n, (i, -1))
    return tok, names


def _api_graph(prog, fq, K=None):
    """fq inlined (poll-method slots and constant function-pointer tables expanded); for a composite kind down to the
    register/unregister API of the other kinds.  Cached on the program object."""
    cache = prog.__dict__.setdefault('_c07_api', {})
    key = (fq, K['kind'] if K is not None and K.get('composite') else None)
    if key not in cache:
        tok = _sub_tokens(K)[0] if key[1] else {}
        cache[key] = h07.inline(prog, prog.fn(fq), tables=True, expand_methods=True,
                                stop=lambda t: t.name in tok and not t.static)
    return cache[key]


def gate_counters(prog, K):
    """Module-private per-object-kind counters, by role instead of by name: every integer member of a record other than
    iv_state (whose counters the exit test reads and which are anchored by name), reached through a pointer (not part
    of a file-scope object, which is process-wide state), that some register / unregister path
    of the kind changes by a unit step (`c++`, `--c`, `c -= 1`, `was = c; c = was + 1`).  Such a counter gates the
    registration of sub-objects (`if (!tinfo->wait_count++) iv_signal_register(...)`), so it takes part in the balance
    exactly like the iv_state counters: unchanged on failure, register == -unregister, value-correlated tests."""
    out = set()
    for fq in K['reg'] + K['unreg']:
        g = _api_graph(prog, fq, K)
        for e in g.events():
            if e['ev'] == 'store':
                k = counter_key(e)
                if k is not None and k not in COUNTERS[:3] and k[0] not in ('global', 'iv_state', 'token', None) \
                        and h07.unit_step(g, e) in (1, -1):
                    r = h07.lvalue_root(e['lhs'])
                    if r is not None and r.get('vk') in ('global', 'staticlocal'):
                        continue        # a member of a file-scope object: process-wide, not a per-thread registration count
                    out.add(k)
    return sorted(out)


def analyse(ctx, prog, fq, K=None, discr=(), extra=()):
    """Inline the API function fq (poll-method slots expanded) and compute the net counter change of
    every return.  -> (inlined graph, [(ret event|None, delta, return class, preds)], covered store
    locations, counter names).  extra: the kind's own gate counters (gate_counters)."""
    f = prog.fn(fq)
    tok, toknames = _sub_tokens(K) if K is not None and K.get('composite') else ({}, [])
    g = _api_graph(prog, fq, K)
    counters = COUNTERS[:3] + list(extra) + [('token', n) for n in toknames]

    def call_delta(e):
        t = tok.get(e.get('callee')) if 'callee' in e else None
        if t is None:
            return None
        d = [0] * len(counters)
        d[len(counters) - len(toknames) + t[0]] = t[1]
        return tuple(d)
    res = h07.delta(g, counters, discr=discr, call_delta=call_delta if tok else None)
    covered = _counter_store_locs(g)
    rets = list(res.rets)
    if f.ret == 'void':
        for (d, envk, preds) in res.exit_states:
            rets.append((None, d, 'void', preds))
    return g, rets, covered, [c[1] for c in counters]


class Coverage:
    """What the balance / runner / iv_main analyses have looked at, collected from their inlined graphs:
       steps   {source location of a counter store: set of steps it makes in the analysed contexts}
       ctx     {(root function name, location): [event, set of steps]} for stores that come from an inlined helper
       seen    locations of events that take the address of a counter and lie on an analysed path
       escapes {location: (root name, event)} where such an address is still around after the cached-address
               normalisation (handed to code that is not analysed, stored, ...)"""

    def __init__(self):
        self.steps, self.ctx, self.seen, self.escapes = {}, {}, set(), {}

    def get(self, loc):
        return self.steps.get(loc)


ADDR_KEYS = None


def _addr_keys():
    return set(COUNTERS) | {QUIT}


def _counter_store_locs(g):
    """Coverage of one inlined graph."""
    cov = Coverage()
    keys = _addr_keys()
    root = getattr(g, 'name', '?')
    for e in g.events():
        if e['ev'] == 'store' and counter_key(e) in keys:
            if counter_key(e) in COUNTERS:
                cov.steps.setdefault(e['loc'], set()).add(step_of(e))
            if e.get('chain'):
                cov.ctx.setdefault((root, e['loc']), [e, set()])[1].add(step_of(e) if counter_key(e) != QUIT else const_store(e))
    if h07.mentions_addr_of(g, keys):
        for e in g.events():
            if any(x.get('k') == 'addr' and h07.last_member(x.get('e')) in keys for x in h07.walk(e)):
                cov.seen.add(e['loc'])
        for e in h07.escaping_addrs(g, keys):
            if e['ev'] != 'enter':
                cov.escapes.setdefault(e['loc'], (root, e))
    return cov


def _cover(covered, cov):
    for loc, steps in cov.steps.items():
        covered.steps.setdefault(loc, set()).update(steps)
    for k, (e, steps) in cov.ctx.items():
        covered.ctx.setdefault(k, [e, set()])[1].update(steps)
    covered.seen |= cov.seen
    for loc, v in cov.escapes.items():
        covered.escapes.setdefault(loc, v)


def run(ctx):
    prog = ctx.prog
    ctx.rule('R-C07a', 'every store to a loop-accounting counter is a unit step (quit: constant; zeroing only at thread '
                       'init) and lies on a path the balance rules analyse', floor=14)
    ctx.rule('R-C07b.fail', 'a registration path that returns failure leaves every counter unchanged', floor=4)
    ctx.rule('R-C07b.sets', 'set of success-path counter deltas of register == negated set of unregister-path '
                            'deltas, per object kind; state-discriminated arms as tabled', floor=9)
    ctx.rule('R-C07b.auto', 'auto-unregistration (task/timer runners): between taking an object and calling its handler the '
                            'count drops exactly once, and whenever user code runs the count has changed by exactly the '
                            'number of objects taken out of / put into their registered state', floor=2)
    ctx.rule('R-C07c', 'iv_main: quit cleared before anything is dispatched and never erased; it enters the kernel wait only '
                       'with quit == 0 and numobjs != 0 freshly established after the last dispatch, and after task '
                       'handlers ran; it returns only with quit != 0 or numobjs == 0; once either is observed nothing more '
                       'is dispatched', floor=5)
    ctx.rule('R-C07d', 'failed iv_fd_register_try leaves `registered` cleared and has called the method unregister hook', floor=2)

    ctx.rule('R-C07e', 'no busy wake-ups from rounding: the millisecond conversion of the remaining time rounds up (shared with C04 R-C04g)', floor=6)
    ctx.section(lambda c: __import__('ivy.rules.c04', fromlist=['x']).rounding(c, 'R-C07e'))
    ctx.rule('R-C07f', 'blocks in the kernel only when nothing is due (1): the kernel wait gets the deadline iv_main computed, or none only '
                       'while a kernel timer is armed for a deadline that is not later than the requested one (shared with C04 R-C04f)', floor=3)
    ctx.section(lambda c: __import__('ivy.rules.c04', fromlist=['x']).keep_armed(c, 'R-C07f'))
    ctx.rule('R-C07g', 'blocks in the kernel only when nothing is due (2): the deadline iv_main hands to the kernel wait is, on every '
                       'path, zero when a task is pending and otherwise the deadline of the soonest timer, both established after '
                       'the last call that may run callbacks; zero only when a task is pending', floor=4)
    ctx.rule('R-C07h', 'every wake-up makes progress: once a poll method has entered the kernel wait, the loop time cached before the '
                       'wait is invalidated (or read afresh from the clock) on every path -- error returns such as EINTR included -- '
                       'before the function that called the poll method returns; otherwise the '
                       'loop judges its timers and computes the next sleep from the time before the wait and sleeps the whole interval again', floor=3)
    ctx.rule('R-C07i', 'blocks in the kernel only when nothing is due (3): the deadline iv_main asks the timer module for is the expiry '
                       'of the earliest registered timer after EVERY history of iv_timer_register / iv_timer_unregister (any timer of the '
                       'store cancelled or re-armed, not only the soonest or the newest), and the runner takes the due timers off in that '
                       'order; decided by evaluating the public timer calls on states over bounded histories, observed through the '
                       'deadline query exactly as iv_main observes it (shared with C04 R-C04h)', floor=15)
    ctx.section(lambda c: __import__('ivy.rules.c04', fromlist=['x']).earliest(c, 'R-C07i'))
    covered = Coverage()
    ctx.section(wakeup_clock, prog)
    ctx.section(balance, covered)
    ctx.section(auto_unregister, covered)
    ctx.section(check_main, prog, covered)
    ctx.section(check_deadline, prog)
    ctx.section(try_rollback)
    ctx.section(writers, covered)


# --------------------------------------------------------------------------
# R-C07b.fail / R-C07b.sets
# --------------------------------------------------------------------------

def _arm_class(preds, arm):
    """'arm' when the tests the path took force key == value, 'other' when they exclude it,
    'both' when they do not decide (the path must then satisfy both obligations)."""
    cons = [(op, k) for (m, op, k) in preds if m == arm['key']]
    allowed = h07.values_allowed(cons, arm['domain'])
    if allowed and all(v == arm['value'] for v in allowed):
        return 'arm'
    if arm['value'] not in allowed:
        return 'other'
    return 'both'


def balance(ctx, covered):
    prog = ctx.prog
    for K in KINDS:
        if K.get('optional') and not all(prog.has_fn(x) for x in K['reg'] + K['unreg']):
            continue
        discr = K.get('discr', ())
        succ = set()
        nm = None
        extra = gate_counters(prog, K)
        for fq in K['reg']:
            g, rets, cov, nm = analyse(ctx, prog, fq, K, discr, extra)
            _cover(covered, cov)
            fails = {}
            for (e, d, rc, preds) in rets:
                if is_fail(rc):
                    key = '%s:failure-return %s' % (fq, canon(e['value']) if e is not None and 'value' in e else '')
                    fails.setdefault(key, []).append((e, d))
                else:
                    # unknown return values count as success
                    succ.add(d)
            for key, lst in sorted(fails.items()):
                badl = [(e, d) for (e, d) in lst if any(d)]
                e0 = (badl or lst)[0][0]
                ctx.ob('R-C07b.fail', key, not badl, loc=e0['loc'] if e0 else prog.fn(fq).loc,
                       detail='net change on this failure path: %s' % ', '.join(sorted({_fmt(d, nm) for e, d in lst})),
                       path=path_to(g, e0) if (badl and e0) else None, fn=fq)
        unreg = set()
        arm_states = {}
        for fq in K['unreg']:
            g, rets, cov, nm = analyse(ctx, prog, fq, K, discr, extra)
            _cover(covered, cov)
            for (e, d, rc, preds) in rets:
                normal = True
                for ai, arm in enumerate(K.get('arms', [])):
                    cl = _arm_class(preds, arm)
                    if cl in ('arm', 'both'):
                        arm_states.setdefault(ai, []).append((e, d))
                    if cl == 'arm':
                        normal = False
                if normal:
                    unreg.add(d)
        neg = {tuple(-x for x in d) for d in unreg}
        ok = (succ == neg) and bool(succ)
        ctx.ob('R-C07b.sets', K['kind'], ok, loc=prog.fn(K['unreg'][0]).loc,
               detail='register success deltas %s ; unregister deltas %s'
                      % (sorted(_fmt(d, nm) for d in succ), sorted(_fmt(d, nm) for d in unreg)),
               fn=K['unreg'][0])
        for ai, arm in enumerate(K.get('arms', [])):
            lst = arm_states.get(ai, [])
            if not lst:
                raise AnalysisBroken('kind %s: no unregister path is discriminated as %s.%s == %s'
                                     % (K['kind'], arm['key'][0], arm['key'][1], arm['value']))
            want = tuple([arm['delta']] * len(nm))
            bad = [(e, d) for (e, d) in lst if d != want]
            ctx.ob('R-C07b.sets', '%s:arm %s.%s == %s' % (K['kind'], arm['key'][0], arm['key'][1], arm['value']),
                   not bad, loc=prog.fn(K['unreg'][0]).loc,
                   detail='deltas on this arm: %s (expected %s: %s)' % (sorted({_fmt(d, nm) for e, d in lst}), _fmt(want, nm), arm['reason']),
                   fn=K['unreg'][0])
    # kick receiver of a poll method: slot pair event_rx_on / event_rx_off
    names = [c[1] for c in COUNTERS[:3]]
    tables = prog.method_tables()
    for t, slots in sorted(tables.items()):
        on, off = slots.get('event_rx_on'), slots.get('event_rx_off')
        if not on and not off:
            continue
        if not (on and off):
            ctx.ob('R-C07b.sets', 'kick:%s' % t, False, loc=prog.globals[t]['loc'],
                   detail='event_rx_on/off must be defined together')
            continue
        fon, foff = prog.resolve(*on), prog.resolve(*off)
        g, rets, cov, _ = analyse(ctx, prog, fon.q)
        _cover(covered, cov)
        succ, failbad = set(), []
        for (e, d, rc, preds) in rets:
            if is_fail(rc):
                if any(d):
                    failbad.append((e, d))
            else:
                succ.add(d)
        ctx.ob('R-C07b.fail', '%s:failure-return' % fon.name, not failbad, loc=fon.loc,
               detail='kick receiver enable, table %s' % t, fn=fon.q)
        g2, rets2, cov2, _ = analyse(ctx, prog, foff.q)
        _cover(covered, cov2)
        un = {d for (e, d, rc, preds) in rets2}
        ctx.ob('R-C07b.sets', 'kick:%s' % t, succ == {tuple(-x for x in d) for d in un} and bool(succ), loc=foff.loc,
               detail='rx_on success deltas %s ; rx_off deltas %s' % (sorted(_fmt(d, names) for d in succ), sorted(_fmt(d, names) for d in un)),
               fn=foff.q)


# --------------------------------------------------------------------------
# R-C07b.auto
# --------------------------------------------------------------------------

def _user_code(g, e):
    sk = h07.site_kind(g, e)
    return sk is not None and sk[0] != 'method'


def auto_unregister(ctx, covered):
    """Runners of one-shot objects (tasks, timers), found by role: the entry points from which an indirect
    call through the kind's handler field is reached.  In each, with all helpers inlined:
      per-object  : between the definition of the object variable (through copies) and the handler call /
                    the move into the expired batch, numobjs drops by exactly one;
      tracks      : at every point at which user code runs, and at return, numobjs has changed since the last
                    such point by exactly the number of objects linked minus unlinked (tasks: the
                    registration link; timers: the heap size)."""
    prog = ctx.prog
    found = {k: False for k in ONE_SHOT}
    owners = {}
    for f in sorted(prog.all_funcs(), key=lambda f: f.q):
        for e in f.events():
            if e['ev'] == 'call' and 'fnexpr' in e:
                sk = h07.site_kind(f, e)
                if sk and sk[0] == 'callback' and sk[1] in ONE_SHOT:
                    owners.setdefault(f.q, (f, set()))[1].add(sk[1])
            elif e['ev'] == 'call':
                # the handler pointer is handed to a trampoline: the call through it shows up once that is inlined
                for sk in h07.passed_callbacks(f, e):
                    if sk[0] == 'callback' and sk[1] in ONE_SHOT:
                        owners.setdefault(f.q, (f, set()))[1].add(sk[1])
    ctxs = {}
    for q, (f, kinds) in sorted(owners.items()):
        for r in h07.nearest_roots(prog, f):
            ctxs.setdefault(r.q, (r, set()))[1].update(kinds)
    graphs = {}
    for q, (r, kinds) in sorted(ctxs.items()):
        graphs[q] = h07.inline(prog, r, expand_methods=False)
        _cover(covered, _counter_store_locs(graphs[q]))
    for q, (r, kinds) in sorted(ctxs.items()):
        g = graphs[q]
        user = {id(e) for e in g.events() if e['ev'] == 'call' and 'fnexpr' in e and _user_code(g, e)}
        for kind in sorted(kinds):
            spec = ONE_SHOT[kind]
            sites = [e for e in g.events() if e['ev'] == 'call' and 'fnexpr' in e
                     and h07.site_kind(g, e) == ('callback', kind)]
            if not sites:
                continue
            found[kind] = True
            aliases = h07.link_aliases(g, spec['record'], spec['link'])
            # ---- per object ------------------------------------------------------
            if kind == 'task':
                targets = sites
                what = 'the handler call'
            else:
                targets = [e for e in g.events() if h07.link_op(e, spec['record'], spec['link'], aliases) == 1]
                what = 'the move into the expired batch'
                if not targets:
                    raise AnalysisBroken('%s: no add to %s.%s found' % (r.name, spec['record'], spec['link']))
            byloc = {}
            for t in targets:
                if kind == 'task':
                    cf = h07.cb_field(g, t)
                    objx = cf[2] if cf else None
                else:
                    objx = h07.link_site(t, spec['record'], spec['link'], aliases)[1]
                root = h07.obj_root_name(objx) if objx is not None else None
                if root is None:
                    raise AnalysisBroken('%s: object of %s is not held in a local' % (r.name, describe(t)))
                fam = h07.copy_family(g, root)
                res = h07.delta(g, [NUMOBJS], discr=spec.get('discr', ()), reset=h07.origin_defs(g, fam), stop=lambda e, t=t: e is t)
                S = res.at.get(id(t))
                ds = {st[0] for st in S[1]} if S else set()
                byloc.setdefault(t['loc'], (t, set()))[1].update(ds)
            for loc, (t, ds) in sorted(byloc.items()):
                ctx.ob('R-C07b.auto', '%s:%s:per-object' % (r.name, kind), ds == {(-1,)}, loc=loc,
                       detail='net change of numobjs between the definition of the object and %s: %s'
                              % (what, sorted(_fmt(d, ['numobjs']) for d in ds)), fn=r.q)
            # ---- count tracks registered objects ----------------------------------
            if kind == 'task':
                alias, tokname = None, 'objects linked into %s.%s' % (spec['record'], spec['link'])

                def call_delta(e, spec=spec, aliases=aliases):
                    n = h07.link_op(e, spec['record'], spec['link'], aliases)
                    return (-n,) if n else None
            else:
                alias, tokname, call_delta = {spec['heap']: (0, -1)}, '%s.%s' % spec['heap'], None
            res = h07.delta(g, [NUMOBJS], discr=spec.get('discr', ()), reset=lambda e: id(e) in user,
                            stop=lambda e: id(e) in user, call_delta=call_delta, alias=alias, saturate=True)
            bad = []
            for (e, S) in res.at.values():
                bad += [(e, st[0]) for st in S if any(st[0])]
            bad += [(e, d) for (e, d, rc, preds) in res.rets if any(d)]
            bad += [(None, d) for (d, envk, preds) in res.exit_states if any(d)]
            e0 = next((e for e, d in bad if e is not None), None)
            ctx.ob('R-C07b.auto', '%s:%s:count-tracks-registered' % (r.name, kind), not bad,
                   loc=e0['loc'] if e0 else sites[0]['loc'],
                   detail='numobjs minus %s is unchanged between any two points at which user code runs (and at return)%s'
                          % (tokname, '; off by %s before %s' % (sorted({d[0] for e, d in bad}), describe(e0) if e0 else 'return') if bad else ''),
                   fn=r.q)
    for kind, ok in sorted(found.items()):
        if not ok:
            raise AnalysisBroken('no call through the %s handler field found in any entry point' % kind)


# --------------------------------------------------------------------------
# R-C07a
# --------------------------------------------------------------------------

def writers(ctx, covered):
    """Every store to a counter, wherever it is written and however the location is reached (directly, through a
    cached address, through a get/put wrapper):
      * per source store (in the function that contains it): unit step / constant / zeroing only under iv_init, and the
        store lies on an analysed path;
      * per analysed context of a store that sits in a helper: the step it makes *there* is a unit step (the step may be
        an argument of the helper), so the instances do not disappear when stores are gathered into wrappers;
      * the address of a counter is taken only on analysed paths, on which every use of it resolves to a direct access."""
    prog = ctx.prog
    init = prog.fn('iv_init')
    keys = _addr_keys()
    funcs = sorted(prog.all_funcs(), key=lambda f: f.q)
    for c in COUNTERS[:3] + [QUIT]:
        ws = []
        for f0 in funcs:
            f = h07.normalised(prog, f0, keys)
            ws += [(f0, e) for e in f.events() if e['ev'] == 'store' and counter_key(e) == c]
        for (f, e) in ws:
            op = e['op']
            k = const_store(e)
            if c == QUIT:
                # a constant, or a parameter for which every caller passes a constant (setter with a value argument)
                vals = h07.param_values(prog, f, e['rhs']) if e.get('op') == '=' and 'rhs' in e else None
                ok = vals is not None and vals <= {0, 1}
                det = 'constant store' + ('' if k is not None else ' (value passed by the callers: %s)' % (sorted(vals) if vals is not None else 'not constant'))
            elif k == 0:
                ok = f.q == init.q or h07.only_through(prog, f, init)
                det = 'zeroing, reachable only from iv_init (thread init)'
            else:
                raw, inst = step_of(e), covered.get(e['loc'])
                if inst is None:
                    ok = False
                    det = 'store is not on any path analysed by the balance rule (unbalanced writer)'
                else:
                    # the step may be a constant argument of a helper: every analysed context decides
                    ok = all(n in (1, -1) for n in inst) and raw in (1, -1, None)
                    det = 'unit step' + ('' if raw is not None else ' in every analysed calling context')
            ctx.ob('R-C07a', '%s:%s.%s %s' % (f.name, c[0], c[1], op), ok, loc=e['loc'], detail=det, fn=f.q)
    for (root, loc), (e, steps) in sorted(covered.ctx.items()):
        c = counter_key(e)
        if c not in COUNTERS[:3] + [QUIT]:
            continue
        origin = e.get('fn') or '?'
        oname = prog.funcs[origin].name if origin in prog.funcs else origin
        if c == QUIT:
            ok, det = all(n in (0, 1) for n in steps), 'constant store in this context'
        elif steps == {None} and const_store(e) == 0:
            continue            # zeroing: judged above, per source store
        else:
            ok, det = all(n in (1, -1) for n in steps), 'unit step in this analysed context (%s)' % sorted(steps, key=str)
        ctx.ob('R-C07a', '%s>%s:%s.%s %s' % (root, oname, c[0], c[1], e['op']), ok, loc=loc, detail=det, fn=origin)
    for f0 in funcs:
        if not (f0.blocks and h07.mentions_addr_of(f0, keys)):
            continue
        for loc, evs in sorted(roles.by_loc([e for e in f0.events()
                                             if any(x.get('k') == 'addr' and h07.last_member(x.get('e')) in keys
                                                    for x in h07.walk(e))]).items()):
            esc = covered.escapes.get(loc)
            ok = loc in covered.seen and esc is None
            ctx.ob('R-C07a', '%s:counter-address' % f0.name, ok, loc=loc,
                   detail='the address of a loop-accounting counter is taken only on an analysed path and every use of the '
                          'pointer resolves to a direct access there'
                          + ('' if ok else (' (escapes in %s: %s)' % (esc[0], describe(esc[1])) if esc else
                                            ' (not on any analysed path)')), fn=f0.q)


# --------------------------------------------------------------------------
# R-C07d
# --------------------------------------------------------------------------

def try_rollback(ctx):
    """Every return of iv_fd_register_try that reports failure, or that did not count the descriptor as a loop object
    (net counter change zero), is a complete rollback: on *that path* the last value stored to iv_fd_.registered is 0 and
    the method's unregister_fd hook was called (or tested NULL).  Path-sensitive (the value and the hook bit are part of
    the disjunctive state that also carries the return value), so a single `return ret` shared by the success and the
    failure path, a goto-cleanup label or a common helper `register(fd, may_fail)` are all the same thing."""
    prog = ctx.prog
    f = prog.fn('iv_fd_register_try')
    g = h07.inline(prog, f, tables=True, expand_methods=False)
    REG = ('iv_fd_', 'registered')
    slot = 'unregister_fd'

    def atr(e, a):
        if e['ev'] == 'store':
            steps = lvalue_steps(e['lhs'])
            if steps and steps[0] == REG:
                k = const_store(e)
                return ('?' if k is None else str(k), a[1])
        elif e['ev'] == 'call' and 'fnexpr' in e and h07.site_kind(g, e) == ('method', slot):
            return (a[0], True)
        return a

    def aedge(blk, si, a):
        if not a[1]:
            for (op, lc, rc, l, r) in norm_cond(blk.term['cond'], si == 0):
                if op == '==' and rc == '0' and h07.value_member(g, l) == ('iv_fd_poll_method', slot):
                    return (a[0], True)
        return a
    res = h07.delta(g, COUNTERS, aux=(('?', False), atr, aedge))
    if not any(is_fail(rc) for (e, d, rc, p, a) in res.rets_aux):
        raise AnalysisBroken('iv_fd_register_try has no failure return')
    byloc = {}
    for (e, d, rc, p, a) in res.rets_aux:
        if not (is_fail(rc) or not any(d)):
            continue
        cur = byloc.setdefault(e['loc'], [e, True, True])
        cur[1] = cur[1] and a[0] == '0'
        cur[2] = cur[2] and a[1]
    for loc, (e, ok1, ok2) in sorted(byloc.items()):
        ctx.ob('R-C07d', 'iv_fd_register_try:registered=0', ok1, loc=loc,
               detail='on every path that returns failure (or without having counted the descriptor) the last store to '
                      'fd->registered before the return is 0', fn=f.q)
        ctx.ob('R-C07d', 'iv_fd_register_try:unregister_fd', ok2, loc=loc,
               detail='every path that returns failure (or without having counted the descriptor) executes '
                      'method->unregister_fd (if set) before returning', fn=f.q)


# --------------------------------------------------------------------------
# R-C07c
# --------------------------------------------------------------------------

MAIN_FACTS = h07.Facts({QUIT: (0, 1), NUMOBJS: (0, 1, 2, 5)})


def _main_model(prog, opened=frozenset()):
    """(iv_main, iv_main with its file-local / static helpers inlined, {id(call event): roles}).  Roles of a call, from
    the call graph (h07.Effects): 'dispatch' = may run a user callback or hook or store to quit / numobjs (so: may
    register or unregister anything, since every registration is counted -- R-C07b), 'tasks' = runs task handlers,
    'block' = reaches the poll method's `poll` slot (the kernel wait).
    opened: qualified names of further (non-local) functions to inline as well (R-C07g: a waiting callee that takes no
    deadline computes it itself)."""
    cache = prog.__dict__.setdefault('_c07_main', {})
    opened = frozenset(opened)
    if opened in cache:
        return cache[opened]
    f = prog.fn('iv_main')
    eff = cache[frozenset()][3] if frozenset() in cache else h07.Effects(prog, watch=[QUIT, NUMOBJS])
    g = h07.inline(prog, f, stop=lambda t: not (t.static or t.file == f.file or t.q in opened))
    cls = {}
    for e in g.events():
        if e['ev'] == 'call':
            tags = eff.of_call(h07.origin(prog, g, e), e)
            c = set()
            if any(t[0] == 'cb' for t in tags) or ('w',) + QUIT in tags or ('w',) + NUMOBJS in tags:
                c.add('dispatch')
            if ('block',) in tags:
                c.add('block')
                c.add('dispatch')
            if ('cb', 'task') in tags:
                c.add('tasks')
            if c:
                cls[id(e)] = c
    cache[opened] = (f, g, cls, eff)
    return cache[opened]


def check_main(ctx, prog, covered=None):
    """Abstract execution of iv_main (file-local helpers inlined) over the facts quit ∈ {0, ≠0, ?} and
    numobjs ∈ {0, ≠0, ?}, which are forgotten at every call that may run user callbacks or write them
    (from the call graph), with disjunctive states so that any spelling of the exit test
    (`a || b`, two breaks, a cached flag, a helper predicate, the loop condition) yields the same facts."""
    f, g, cls, _eff = _main_model(prog)
    if covered is not None:
        # only the address bookkeeping: a counter *store* in iv_main is not thereby a balanced one
        cov = _counter_store_locs(g)
        covered.seen |= cov.seen
        for loc, v in cov.escapes.items():
            covered.escapes.setdefault(loc, v)
    facts = MAIN_FACTS
    blocks = [e for e in g.events() if 'block' in cls.get(id(e), ())]
    if not blocks:
        raise AnalysisBroken('iv_main: no call that enters the poll method\'s kernel wait')
    # (no call that runs task handlers at all: every `tasks-before-poll` obligation below fails)

    # state: frozenset of (facts, cleared, tasks, dispatched); facts = sorted tuple of (key, 'z'|'nz')
    def mk(env, cleared, tasks, disp):
        return (tuple(sorted(env.items())), cleared, tasks, disp)

    def tr(e, S):
        ev = e['ev']
        out = set()
        for (fk, cleared, tasks, disp) in S:
            env = dict(fk)
            if ev == 'store':
                key = counter_key(e) if len(lvalue_steps(e['lhs'])) == 1 else None
                l = strip(e['lhs'])
                if key in (QUIT, NUMOBJS):
                    for k_ in [k_ for k_ in env if k_[0] == 'alias']:
                        env.pop(k_)
                if key == QUIT:
                    k = const_store(e)
                    env.pop(QUIT, None)
                    if k is not None:
                        env[QUIT] = 'nz' if k else 'z'
                    if k == 0:
                        cleared = True
                elif key == NUMOBJS:
                    env.pop(NUMOBJS, None)
                elif isinstance(l, dict) and l.get('k') == 'var' and l.get('vk') in ('local', 'param'):
                    plain = e.get('op') == '=' and 'rhs' in e
                    v = h07.truth(facts, env, e['rhs']) if plain else '?'
                    av = h07.alias_value(facts, e['rhs']) if plain else None
                    iv = h07.value(facts, env, e['rhs']) if plain else None
                    env.pop(('var', l['name']), None)
                    env.pop(('val', l['name']), None)
                    if iv is not None:
                        # the integer itself (an enum-valued status consumed by a switch)
                        env[('val', l['name'])] = iv
                    for k_ in [k_ for k_ in env if k_[0] == 'alias' and (k_[1] == l['name'] or h07.alias_mentions(env[k_], l['name']))]:
                        env.pop(k_)
                    if v != '?':
                        env[('var', l['name'])] = v
                    elif av is not None and not h07.alias_mentions(av, l['name']):
                        # the local caches facts not decided yet (`n = st->numobjs;`, `stop = st->quit | !n;`): a later
                        # test of the local is a test of that expression, as long as no fact is forgotten
                        env[('alias', l['name'])] = av
            elif ev == 'decl':
                env.pop(('var', e['name']), None)
                env.pop(('val', e['name']), None)
                env.pop(('alias', e['name']), None)
            elif ev == 'call':
                c = cls.get(id(e), ())
                if 'dispatch' in c:
                    for k_ in [k_ for k_ in env if k_ in (QUIT, NUMOBJS) or k_[0] == 'alias']:
                        env.pop(k_)
                    disp = True
                if 'tasks' in c:
                    tasks = True
                if 'block' in c:
                    tasks = False
                for a in e.get('args', []):
                    a = strip(a)
                    if isinstance(a, dict) and a.get('k') == 'addr' and strip(a['e']).get('k') == 'var':
                        env.pop(('var', strip(a['e'])['name']), None)
                        env.pop(('val', strip(a['e'])['name']), None)
                        env.pop(('alias', strip(a['e'])['name']), None)
            out.add(mk(env, cleared, tasks, disp))
        return frozenset(out)

    def edge(blk, si, S):
        if blk.term and blk.term.get('cls') == 'SwitchStmt' and blk.term.get('cases') and blk.term.get('cond') is not None:
            out = set()
            for (fk, cleared, tasks, disp) in S:
                for env in h07.switch_edge(facts, dict(fk), blk.term, si):
                    out.add(mk(env, cleared, tasks, disp))
            return frozenset(out) if out else None
        if not blk.term or len(blk.succ) != 2 or blk.term.get('cond') is None \
                or blk.term.get('cls') in ('SwitchStmt', 'MethodDispatch'):
            return S
        out = set()
        for (fk, cleared, tasks, disp) in S:
            for env in h07.assume(facts, dict(fk), blk.term['cond'], si == 0):
                out.add(mk(env, cleared, tasks, disp))
        return frozenset(out) if out else None

    init = frozenset([mk({}, False, False, False)])
    _, ev_in = forward(g, init, tr, lambda a, b: a | b, edge=edge)

    def states(e):
        return ev_in.get((e['_b'], e['_i']), frozenset())

    def val(st, key):
        return dict(st[0]).get(key, '?')

    # (1) quit is cleared before anything is dispatched, and never written after a dispatch
    disp_sites = [e for e in g.events() if 'dispatch' in cls.get(id(e), ())]
    for loc, evs in sorted(roles.by_loc(disp_sites).items()):
        ok = all(st[1] for e in evs for st in states(e))
        ctx.ob('R-C07c', 'iv_main:quit-cleared', ok, loc=loc,
               detail='iv_main stored quit = 0 on every path from entry to %s (a call that may run callbacks)' % describe(evs[0]), fn=f.q)
    qstores = [e for e in g.events() if e['ev'] == 'store' and counter_key(e) == QUIT and len(lvalue_steps(e['lhs'])) == 1]
    late = [e for e in qstores if any(st[3] for st in states(e))]
    ctx.ob('R-C07c', 'iv_main:quit-not-erased', not late, loc=(late or qstores or [{'loc': f.loc}])[0]['loc'],
           detail='no store to quit is reachable after a call that may run callbacks (a quit request is never erased)', fn=f.q)
    # (2) the kernel wait is entered only with quit == 0 and numobjs != 0, established after the last dispatch,
    #     and after task handlers ran since the previous wait
    for loc, evs in sorted(roles.by_loc(blocks).items()):
        sts = [st for e in evs for st in states(e)]
        ctx.ob('R-C07c', 'iv_main:poll-after-quit-test', bool(sts) and all(val(st, QUIT) == 'z' for st in sts), loc=loc,
               detail='the kernel wait is reached only with quit == 0 established after the last call that may run callbacks', fn=f.q)
        ctx.ob('R-C07c', 'iv_main:poll-after-numobjs-test', bool(sts) and all(val(st, NUMOBJS) == 'nz' for st in sts), loc=loc,
               detail='the kernel wait is reached only with numobjs != 0 established after the last call that may run callbacks', fn=f.q)
        ctx.ob('R-C07c', 'iv_main:tasks-before-poll', bool(sts) and all(st[2] for st in sts), loc=loc,
               detail='on every path from entry / the previous kernel wait to this one a call that runs task handlers is executed', fn=f.q)
    # (3) iv_main returns only with quit != 0 (set since it cleared it) or numobjs == 0
    pts = [(b, i) for b, blk in g.blocks.items() for i, e in enumerate(blk.events) if e['ev'] == 'ret' and not e.get('chain')]
    pts.append((g.exit, 0))
    rs = [st for p in pts for st in ev_in.get(p, frozenset())]
    if not rs:
        raise AnalysisBroken('iv_main: no return is reachable')
    bad = [st for st in rs if not ((val(st, QUIT) == 'nz' and st[1]) or val(st, NUMOBJS) == 'z')]
    ctx.ob('R-C07c', 'iv_main:return-only-on-quit-or-empty', not bad, loc=f.loc,
           detail='every path to a return established quit != 0 or numobjs == 0 after the last call that may run callbacks'
                  + (' (a returning path knows only: %s)' % ', '.join('%s.%s %s' % (k[0], k[1], v) for k, v in bad[0][0] if k[0] != 'alias') if bad else ''), fn=f.q)
    # (4) once quit / emptiness has been observed nothing more is dispatched (so (3) is reached)
    for loc, evs in sorted(roles.by_loc(disp_sites).items()):
        sts = [st for e in evs for st in states(e)]
        ok = not any(val(st, QUIT) == 'nz' or val(st, NUMOBJS) == 'z' for st in sts)
        ctx.ob('R-C07c', 'iv_main:no-dispatch-after-exit-condition', ok, loc=loc,
               detail='%s is never reached on a path that observed quit != 0 or numobjs == 0 since the last dispatch' % describe(evs[0]), fn=f.q)


# --------------------------------------------------------------------------
# R-C07g
# --------------------------------------------------------------------------

TASKS = ('iv_state', 'tasks')
PENDING = ('pending', 'task')
TS_FIELDS = ('tv_sec', 'tv_nsec')
NUM_TIMERS = ('iv_state', 'num_timers')
EXPIRES = (('iv_timer_', 'expires'), ('iv_timer', 'expires'))


def _zero_init(x):
    """is x an initialiser list of a time value all of whose listed fields are the constant 0 (the others are 0 in C)?"""
    x = h07.strip_cast(x)
    while isinstance(x, dict) and x.get('k') == 'compound' and 'e' in x:
        x = h07.strip_cast(x['e'])
    if not (isinstance(x, dict) and x.get('k') == 'init'):
        return False
    fl = x.get('fields')
    vals = list(fl.values()) if isinstance(fl, dict) else x.get('elems', x.get('items'))
    return vals is not None and all(h07.int_of(v) == 0 for v in vals)


def _is_timer_deadline_fn(prog, t, eff):
    """Role `the deadline of the soonest timer`: a function that returns a pointer to a time value, runs no user code,
    does not wait, and (helpers inlined) hands out the address of a timer's expiry (or NULL: no timer)."""
    if t is None or not t.blocks or 'timespec' not in (t.ret or '') or '*' not in (t.ret or ''):
        return False
    cache = prog.__dict__.setdefault('_c07_soonest', {})
    if t.q not in cache:
        tags = eff.of_func(t)
        ok = not any(x[0] in ('cb', 'block') for x in tags)
        if ok:
            gi = h07.inline(prog, t, expand_methods=False)
            ok = any(x.get('k') == 'addr' and last_member(x.get('e')) in EXPIRES for e in gi.events() for x in h07.walk(e))
        cache[t.q] = ok
    return cache[t.q]


def check_deadline(ctx, prog):
    """`blocks in the kernel only when nothing is due`, as far as iv_main decides it: what is due inside the loop are the
    registered tasks (all of them) and the timers whose expiry has passed.  Abstract execution of iv_main (same graph and
    call roles as R-C07c) with disjunctive states over
      * the fact `a task is pending` (emptiness of iv_state.tasks, however it is tested: helper predicate, cached in a
        local, `== 0`, conditional expression), forgotten at every call that may run user code or register anything;
      * what every pointer local holds: the address of a time value of iv_main's own whose fields were all last stored 0 on
        this path (or an immutable all-zero one), the result of the timer-deadline function (role, see
        _is_timer_deadline_fn) obtained after the last such call (`soon`) or before it (`stale`), NULL, or anything else.
      * the fact `a timer is registered` (iv_state.num_timers), forgotten likewise: NULL handed to the wait on a path that
        found no timer registered is what the timer-deadline function answers for an empty heap.
    At every call that enters the kernel wait the deadline argument (the time-value pointer parameter of the callee) is
    judged in every state: zero time value / soonest-timer deadline (never NULL with a timer possibly registered, never
    anything else); fresh; not zero => no task pending; zero => a task pending."""
    def target_in(g_, e_or_x, owner):
        u = prog.unit_of(owner) if owner is not None else None
        n = e_or_x.get('callee')
        return (prog.resolve(u, n) if u else prog.funcs.get(n)) if n else None

    def is_deadline_param(p_):
        return bool(p_.get('ptr')) and p_.get('record') == 'timespec'

    # The deadline is judged where it is handed over as a deadline: at the waiting call whose callee takes a time-value
    # pointer.  A waiting callee that takes none determines the deadline itself: it is then part of the model (inlined
    # with its own static helpers), and the waiting calls inside it are judged -- down to the poll method's slot.
    opened = set()
    for _round in range(6):
        f, g, cls, eff = _main_model(prog, opened)
        more = set()
        for e in g.events():
            if 'block' in cls.get(id(e), ()) and 'callee' in e:
                t = target_in(g, e, h07.origin(prog, g, e))
                if t is not None and t.blocks and t.q not in opened and not any(is_deadline_param(p_) for p_ in t.params):
                    more.add(t.q)
        if not more:
            break
        opened |= more
    facts = h07.LoopFacts({NUM_TIMERS: (0, 1, 2, 5)}, {TASKS: PENDING})
    facts.prog = prog
    blocks = [e for e in g.events() if 'block' in cls.get(id(e), ())]
    if not blocks:
        raise AnalysisBroken('iv_main: no call that enters the poll method\'s kernel wait')
    REQ = ('req',)

    def target(e_or_x, owner):
        return target_in(g, e_or_x, owner)

    def callee_params(e, owner, i):
        """the i-th parameter of every function the call may enter (direct callee, or the poll-method slot's targets)"""
        if 'callee' in e:
            ts = [target(e, owner)]
        else:
            sk = h07.site_kind(g, e)
            ts = list(prog.slot_targets(sk[1])) if sk and sk[0] == 'method' else [None]
        return [t.params[i] if t is not None and i < len(t.params) else None for t in ts] or [None]

    def is_local(v):
        return isinstance(v, dict) and v.get('k') == 'var' and v.get('vk') in ('local', 'param')

    def is_time_obj(v):
        return isinstance(v, dict) and v.get('k') == 'var' and v.get('record') == 'timespec' and not v.get('ptr')

    def pv(x, env, owner):
        """abstract value of a pointer expression: 'zero:<local>', 'czero', 'soon', 'stale', 'null' or None (anything else)"""
        x = h07.strip_cast(facts.expand(x, env))
        if not isinstance(x, dict):
            return None
        k = x.get('k')
        if k == 'null' or h07.int_of(x) == 0:
            return 'null'
        if k == 'var':
            return env.get(('ptr', x['name']))
        if k == 'addr':
            v = h07.strip_cast(x['e']) if isinstance(x.get('e'), dict) and x['e'].get('k') != 'load' else x.get('e')
            if is_time_obj(v):
                if v.get('vk') == 'local':
                    return 'zero:' + v['name']
                if v.get('vk') in ('global', 'staticlocal') and 'const' in (v.get('type') or '').split():
                    gl = [d for q, d in prog.globals.items() if d.get('name') == v['name'] and not d.get('extern_decl')
                          and (q == v['name'] or q.endswith(':' + v['name']))]
                    if len(gl) == 1 and ('init' not in gl[0] or _zero_init(gl[0]['init'])):
                        return 'czero'
                return None
            if last_member(x.get('e')) in EXPIRES:
                return 'soon'
            return None
        if k == 'call' and 'callee' in x:
            return 'soon' if _is_timer_deadline_fn(prog, target(x, owner), eff) else None
        if k == 'cond':
            c = h07.truth(facts, env, x['c'])
            if c == 'nz':
                return pv(x['a'], env, owner)
            if c == 'z':
                return pv(x['b'], env, owner)
            a, b = pv(x['a'], env, owner), pv(x['b'], env, owner)
            return a if a == b else None
        return None

    def value_at_return(call, owner):
        """What a call of a repo function that is not part of the model evaluates to, as an expression over the state
        right after the call: the function's one `return <side-effect free expression over list emptiness tests and its
        parameters>` (whatever the function did before -- the call event itself has been executed by then), with the
        arguments substituted; None when the function is not of that form or reassigns a parameter."""
        t = target(call, owner)
        if t is None or not t.blocks or len(t.params) != len(call.get('args', [])):
            return None
        cache = prog.__dict__.setdefault('_c07_retval', {})
        if t.q not in cache:
            body = t.pristine()
            rets = [e for e in body.events() if e['ev'] == 'ret']
            pnames = {p_['name'] for p_ in t.params}
            ok = len(rets) == 1 and 'value' in rets[0] and facts.reads_fact(rets[0]['value'])
            if ok:
                for y in h07.walk(rets[0]['value']):
                    if (y.get('k') == 'call' and not facts.pure_call(y)) or \
                            y.get('k') in ('assign', 'incdec', 'stmtexpr', 'other', 'deep', 'va_arg', 'init', 'compound'):
                        ok = False
                    if y.get('k') == 'var' and y.get('vk') not in ('param',):
                        ok = False                  # a local of the callee: its value is not known here
                for e in body.events():
                    if e['ev'] == 'store':
                        l = h07.strip_cast(e['lhs'])
                        if isinstance(l, dict) and l.get('k') == 'var' and l.get('name') in pnames:
                            ok = False
                    for y in h07.walk(e):
                        if isinstance(y, dict) and y.get('k') == 'addr' and isinstance(y.get('e'), dict) \
                                and y['e'].get('k') == 'var' and y['e'].get('name') in pnames:
                            ok = False
            cache[t.q] = rets[0]['value'] if ok else None
        v = cache[t.q]
        if v is None:
            return None
        byname = {p_['name']: a for p_, a in zip(t.params, call['args'])}

        def sub(nd):
            if nd.get('k') == 'load' and isinstance(nd.get('e'), dict) and nd['e'].get('k') == 'var' and nd['e'].get('vk') == 'param' \
                    and nd['e']['name'] in byname:
                return byname[nd['e']['name']]
            return None
        return subst(v, sub)

    def post(x, env, owner):
        """x with its one call of a function outside the model replaced by what that call returned (value_at_return): only
        when it is the only such call in x, so that nothing can have changed the state between the callee's return and
        the evaluation of x (the call event directly precedes it)."""
        if not isinstance(x, dict):
            return x
        calls = [y for y in h07.walk(x) if isinstance(y, dict) and y.get('k') == 'call' and not facts.pure_call(y)
                 and not (y.get('loc') and env.get(('inl', y['loc'])) is not None)]
        if len(calls) != 1 or 'callee' not in calls[0]:
            return x
        r = value_at_return(calls[0], owner)
        if r is None:
            return x
        c0 = calls[0]
        return subst(x, lambda nd: r if nd is c0 else None)

    def forget(env, n):
        for k_ in [k_ for k_ in env if (k_[0] in ('ptr', 'var', 'val', 'alias', 'lst') and k_[1] == n) or (k_[0] == 'ts' and k_[1] == n)
                   or (k_[0] == 'alias' and h07.alias_mentions(env[k_], n))]:
            env.pop(k_)

    def time_obj_of(l, env):
        """(name of the local time value, field | None) that the lvalue l is (a field of), directly or through a pointer
        local that holds its address; None when l is something else"""
        l = h07.strip_cast(l) if isinstance(l, dict) and l.get('k') in ('cast', 'paren') else l
        if not isinstance(l, dict):
            return None
        if is_time_obj(l) and l.get('vk') == 'local':
            return (l['name'], None)
        if l.get('k') == 'deref':
            p = h07.strip_cast(l.get('e'))
            v = env.get(('ptr', p['name'])) if isinstance(p, dict) and p.get('k') == 'var' else None
            return (v[5:], None) if isinstance(v, str) and v.startswith('zero:') else None
        if l.get('k') == 'member':
            b = l.get('base')
            if l.get('arrow'):
                p = h07.strip_cast(b)
                v = env.get(('ptr', p['name'])) if isinstance(p, dict) and p.get('k') == 'var' else None
                return (v[5:], l['field']) if isinstance(v, str) and v.startswith('zero:') else None
            o = time_obj_of(b, env)
            return (o[0], l['field']) if o is not None and o[1] is None else None
        return None

    def assign(env, name, rhs, owner):
        """env after `name = rhs` (rhs not a conditional expression)"""
        v = h07.truth(facts, env, rhs)
        av = h07.alias_value(facts, rhs)
        iv = h07.value(facts, env, rhs)
        p = pv(rhs, env, owner)
        src = h07.strip_cast(facts.expand(rhs, env))
        if av is None and is_local(src) and ('alias', src['name']) in env:
            av = env[('alias', src['name'])]            # a copy of a local that stands for an expression
        hk = facts.head_key(facts.expand(rhs, env), env)
        if v == '?' and p is not None and p not in ('soon', 'stale'):
            v = 'z' if p == 'null' else 'nz'            # NULL / the address of an object: decides a later `ptr == NULL`
        forget(env, name)
        if p is not None:
            env[('ptr', name)] = p
        if hk is not None:
            env[('lst', name)] = hk                     # the local holds the address of the task list's head
        if iv is not None:
            env[('val', name)] = iv
        if v != '?':
            env[('var', name)] = v
        elif av is not None and not h07.alias_mentions(av, name):
            env[('alias', name)] = av
        return env

    def tr_one(e, env):
        ev = e['ev']
        owner = h07.origin(prog, g, e)
        if ev == 'enter':
            if e.get('inst') is not None:
                env[('inl', e['loc'])] = e['inst']
        elif ev == 'load':
            # a deadline value (a pointer local that holds one) is read: compared, looked into, or about to be handed to
            # a call.  The deadlines consulted since the last dispatch stand for the requested deadline at a wait that
            # itself gets none (see the judgement below).
            seen = set(env.get(REQ, ()))
            for x in h07.walk(e.get('e')):
                if isinstance(x, dict) and x.get('k') == 'var' and x.get('vk') in ('local', 'param') and x.get('ptr') \
                        and x.get('record') == 'timespec' and ('ptr', x['name']) in env:
                    seen.add(env[('ptr', x['name'])])
            if seen != set(env.get(REQ, ())):
                env[REQ] = tuple(sorted(seen))
        elif ev == 'decl':
            forget(env, e['name'])
            if e.get('record') == 'timespec' and not e.get('ptr') and e.get('init') is not None and _zero_init(e['init']):
                for fl in TS_FIELDS:
                    env[('ts', e['name'], fl)] = 'z'
        elif ev == 'store':
            l = e['lhs']
            ls = h07.strip_cast(l) if isinstance(l, dict) and l.get('k') in ('cast', 'paren') else l
            plain = e.get('op') == '=' and 'rhs' in e
            if is_local(ls) and not is_time_obj(ls):
                if not plain:
                    forget(env, ls['name'])
                    return [env]
                rhs = post(e['rhs'], env, owner)
                r = strip(rhs)
                if isinstance(r, dict) and r.get('k') == 'cond' and h07.truth(facts, env, r['c']) == '?':
                    out = []
                    for pol, br in ((True, r['a']), (False, r['b'])):
                        for e1 in h07.assume(facts, dict(env), r['c'], pol):
                            out.append(assign(e1, ls['name'], br, owner))
                    return out
                assign(env, ls['name'], rhs, owner)
                return [env]
            o = time_obj_of(ls, env)
            if o is not None:
                n, fl = o
                if fl is None:
                    for k_ in [k_ for k_ in env if k_[0] == 'ts' and k_[1] == n]:
                        env.pop(k_)
                    if plain and _zero_init(e['rhs']):
                        for fl_ in TS_FIELDS:
                            env[('ts', n, fl_)] = 'z'
                    elif plain:
                        # a copy of another time value of iv_main's own
                        src = h07.strip_cast(e['rhs'])
                        if isinstance(src, dict) and src.get('k') == 'deref':
                            src = {'k': 'deref', 'e': src['e']}
                        so = time_obj_of(src, env) if isinstance(src, dict) else None
                        if so is not None and so[1] is None and so[0] != n:
                            for fl_ in TS_FIELDS:
                                if env.get(('ts', so[0], fl_)) == 'z':
                                    env[('ts', n, fl_)] = 'z'
                        elif pv({'k': 'addr', 'e': src}, env, owner) == 'czero':
                            for fl_ in TS_FIELDS:
                                env[('ts', n, fl_)] = 'z'
                else:
                    env.pop(('ts', n, fl), None)
                    if const_store(e) == 0:
                        env[('ts', n, fl)] = 'z'
        elif ev == 'call':
            c = cls.get(id(e), ())
            args = e.get('args', [])
            zeroing = e.get('callee') in ('memset', '__builtin_memset') and len(args) == 3 and h07.int_of(args[1]) == 0
            for i, a in enumerate(args):
                a = h07.strip_cast(a)
                if isinstance(a, dict) and a.get('k') == 'addr' and isinstance(h07.strip_cast(a['e']), dict) \
                        and h07.strip_cast(a['e']).get('k') == 'var' and a['e'].get('k') != 'load':
                    v = h07.strip_cast(a['e'])
                    forget(env, v['name'])
                    if zeroing and i == 0 and is_time_obj(v) and h07.int_of(args[2]) is not None and h07.int_of(args[2]) >= 16:
                        for fl in TS_FIELDS:
                            env[('ts', v['name'], fl)] = 'z'
                elif 'block' not in c:
                    # a pointer to a time value of iv_main's own handed to other code: it may be written through it
                    p = pv(a, env, owner)
                    if isinstance(p, str) and p.startswith('zero:'):
                        pars = callee_params(e, owner, i)
                        if zeroing and i == 0:
                            for fl in TS_FIELDS:
                                env[('ts', p[5:], fl)] = 'z'
                        elif any(par is None or 'const' not in (par.get('type') or '').split('*')[0].split() for par in pars):
                            for k_ in [k_ for k_ in env if k_[0] == 'ts' and k_[1] == p[5:]]:
                                env.pop(k_)
            if 'dispatch' in c:
                for k_ in [k_ for k_ in env if k_ in (PENDING, NUM_TIMERS, REQ) or k_[0] == 'alias']:
                    env.pop(k_)
                for k_ in [k_ for k_ in env if k_[0] == 'ptr' and env[k_] == 'soon']:
                    env[k_] = 'stale'
                # (a local that cached the pending test keeps its value, but a later test of it no longer establishes the fact)
        return [env]

    def tr(e, S):
        out = set()
        for fk in S:
            for env in tr_one(e, dict(fk)):
                out.add(tuple(sorted(env.items())))
        return frozenset(out)

    def edge(blk, si, S):
        if blk.term and blk.term.get('cls') == 'SwitchStmt' and blk.term.get('cases') and blk.term.get('cond') is not None:
            out = set()
            for fk in S:
                for env in h07.switch_edge(facts, dict(fk), blk.term, si):
                    out.add(tuple(sorted(env.items())))
            return frozenset(out) if out else None
        if not blk.term or len(blk.succ) != 2 or blk.term.get('cond') is None \
                or blk.term.get('cls') in ('SwitchStmt', 'MethodDispatch'):
            return S
        out = set()
        owner = h07.origin(prog, g, blk.events[-1]) if blk.events else f
        for fk in S:
            for env in h07.assume(facts, dict(fk), post(blk.term['cond'], dict(fk), owner), si == 0):
                out.add(tuple(sorted(env.items())))
        return frozenset(out) if out else None

    _, ev_in = forward(g, frozenset([()]), tr, lambda a, b: a | b, edge=edge)

    def deadline_index(e, owner):
        ts = [target(e, owner)] if 'callee' in e else []
        if 'fnexpr' in e:
            sk = h07.site_kind(g, e)
            ts = list(prog.slot_targets(sk[1])) if sk and sk[0] == 'method' else []
        idx = set()
        for t in ts:
            if t is not None:
                idx.add(tuple(i for i, p_ in enumerate(t.params) if is_deadline_param(p_)))
        if len(idx) != 1 or len(next(iter(idx))) != 1 or next(iter(idx))[0] >= len(e.get('args', [])):
            raise AnalysisBroken('iv_main: the deadline argument of %s (its one time-value pointer parameter) is not identified' % describe(e))
        return next(iter(idx))[0]

    def show(v):
        return {None: 'not a deadline iv_main computed (unknown value)', 'null': 'NULL (wait for ever) although a timer may be registered', 'czero': 'zero',
                'soon': 'soonest timer', 'stale': 'soonest timer, computed before the last dispatch'}.get(v, 'local time value')

    for loc, evs in sorted(roles.by_loc(blocks).items()):
        rows = []           # (value, is zero, pending fact)
        for e in evs:
            owner = h07.origin(prog, g, e)
            arg = e['args'][deadline_index(e, owner)]
            for fk in ev_in.get((e['_b'], e['_i']), frozenset()):
                env = dict(fk)
                v0 = pv(arg, env, owner)
                vs = [v0]
                if v0 == 'null' and env.get(NUM_TIMERS) != 'z' and env.get(REQ):
                    # The wait gets no deadline on a path that has consulted (compared, looked into, handed to the poll
                    # method) a deadline since the last dispatch: that one is the requested deadline and is judged here;
                    # whether waiting without it is justified (a kernel timer armed for it) is R-C07f.  Without any
                    # consulted deadline NULL is judged as it stands.
                    vs = list(env[REQ])
                for v in vs:
                    if v == 'null' and env.get(NUM_TIMERS) == 'z':
                        v = 'soon'      # no deadline with no timer registered (found so after the last dispatch) is what the
                                        # timer-deadline function answers for an empty heap
                    zero = v == 'czero' or (isinstance(v, str) and v.startswith('zero:')
                                            and all(env.get(('ts', v[5:], fl)) == 'z' for fl in TS_FIELDS))
                    if isinstance(v, str) and v.startswith('zero:') and not zero:
                        unset = [fl for fl in TS_FIELDS if env.get(('ts', v[5:], fl)) != 'z']
                        rows.append(('local time value `%s` whose %s is not 0 on this path' % (v[5:], '/'.join(unset)), False, env.get(PENDING, '?'), v))
                    else:
                        rows.append((show(v), zero, env.get(PENDING, '?'), v))
        if not rows:
            raise AnalysisBroken('iv_main: the kernel wait %s is not reachable' % describe(evs[0]))
        what = describe(evs[0])
        bad = sorted({r[0] for r in rows if not (r[1] or r[3] in ('soon', 'stale'))})
        ctx.ob('R-C07g', 'iv_main:deadline-is-zero-or-soonest-timer', not bad, loc=loc,
               detail='on every path the deadline handed to %s is a zero time value or the deadline of the soonest timer'
                      % what + ('; found: ' + '; '.join(bad) if bad else ''), fn=f.q)
        bad = [r for r in rows if r[3] == 'stale']
        ctx.ob('R-C07g', 'iv_main:deadline-fresh', not bad, loc=loc,
               detail='the soonest-timer deadline handed to %s was obtained after the last call that may run callbacks '
                      '(which may register a sooner timer)' % what, fn=f.q)
        bad = [r for r in rows if not r[1] and r[2] != 'z']
        ctx.ob('R-C07g', 'iv_main:blocks-only-without-pending-task', not bad, loc=loc,
               detail='%s gets a deadline other than zero only on paths that found no task pending after the last call that may '
                      'run callbacks' % what + ('; found with the pending test %s: %s'
                                               % ({'nz': 'true', '?': 'not made'}.get(bad[0][2], bad[0][2]), bad[0][0]) if bad else ''), fn=f.q)
        bad = [r for r in rows if r[1] and r[2] != 'nz']
        ctx.ob('R-C07g', 'iv_main:zero-deadline-only-with-pending-task', not bad, loc=loc,
               detail='%s gets the zero deadline (poll without waiting) only on paths that found a task pending: otherwise every '
                      'iteration polls again without anything to dispatch' % what, fn=f.q)


# --------------------------------------------------------------------------
# R-C07h
# --------------------------------------------------------------------------

def _kernel_waits(prog, t):
    """The kernel wait of poll-slot function t, by role: the calls of functions that are not part of the library (no body:
    system calls) that are handed a value computed from t's deadline parameter (its time-value pointer: `abs` itself, a
    relative time or millisecond count derived from it by whatever helpers, through locals).  -> {(location, callee)}"""
    dl = [p_['name'] for p_ in t.params if p_.get('ptr') and p_.get('record') == 'timespec']
    if not dl:
        raise AnalysisBroken('poll slot %s has no deadline (time-value pointer) parameter' % t.name)
    g = h07.inline(prog, t, expand_methods=False)
    tainted = set(dl)

    def dirty(x):
        return any(isinstance(y, dict) and y.get('k') == 'var' and y.get('vk') in ('local', 'param') and y.get('name') in tainted
                   for y in h07.walk(x))
    # locals that may designate the same object: `p = q`, `p = &x`, `p = (T *)q` (helper parameters and results after
    # inlining); a value written through one of them is read through the others (`timespec_sub(rel, abs, now)`)
    peers = {}
    for e in g.events():
        if e['ev'] == 'store' and e.get('op') == '=' and 'rhs' in e:
            l, r = h07.strip_cast(e['lhs']), h07.strip_cast(e['rhs'])
            if isinstance(r, dict) and r.get('k') == 'addr':
                r = h07.strip_cast(r.get('e'))
            if all(isinstance(v, dict) and v.get('k') == 'var' and v.get('vk') in ('local', 'param') for v in (l, r)):
                peers.setdefault(l['name'], set()).add(r['name'])
                peers.setdefault(r['name'], set()).add(l['name'])

    def base_var(x):
        """the variable a stored-to location is reached from: `v`, `v.f`, `v[i]`, and also `v->f`, `*v` (the object v points to)"""
        while isinstance(x, dict):
            k = x.get('k')
            if k == 'var':
                return x
            x = x.get('base') if k in ('member', 'index') else x.get('e') if k in ('load', 'deref', 'cast', 'paren') else None
        return None

    def taint(n):
        work, new = [n], False
        while work:
            x = work.pop()
            if x not in tainted:
                tainted.add(x)
                new = True
                work += list(peers.get(x, ()))
        return new
    for n in list(dl):
        for m in peers.get(n, ()):
            taint(m)
    changed = True
    while changed:
        changed = False
        for e in g.events():
            if e['ev'] == 'store' and 'rhs' in e and dirty(e['rhs']):
                r = base_var(e['lhs'])
                if r is not None and r.get('vk') in ('local', 'param') and r['name'] not in tainted:
                    changed = taint(r['name']) or changed
    out = set()
    for e in g.events():
        if e['ev'] == 'call' and 'callee' in e and any(dirty(a) for a in e.get('args', [])):
            o = h07.origin(prog, g, e)
            u = prog.unit_of(o) if o is not None else None
            tg = prog.resolve(u, e['callee']) if u else prog.funcs.get(e['callee'])
            if (tg is None or not tg.blocks) and not e.get('noreturn'):
                out.add((e['loc'], e['callee']))
    return out


def wakeup_clock(ctx, prog):
    """R-C07h.  In every function from which the poll method's `poll` slot is called (nearest entry point; the slots of
    every method expanded, helpers inlined): may-analysis of the fact `a kernel wait has been executed and the cached loop
    time has not been invalidated (a constant other than the `valid` value stored to its validity flag; roles from h04) nor
    re-read from the clock since`.  The fact
    must not hold at any return of that function (the loop would take the time from before the wait for the current
    time).  One instance per poll method; a wait is attributed to the method whose slot function it is inlined from."""
    from . import h04
    h04.bind(prog)
    h04.need('clock')
    h04.need('flag')
    tables = prog.method_tables()
    waits, owner_of = {}, {}
    for tab, slots in sorted(tables.items()):
        v = slots.get('poll')
        if not v or v[0] == 'str':
            continue
        t = prog.resolve(v[0], v[1])
        if t is None or not t.blocks:
            continue
        ws = _kernel_waits(prog, t)
        if not ws:
            raise AnalysisBroken('%s.poll (%s): no system call is handed a timeout derived from the deadline (the kernel wait)' % (tab, t.name))
        waits[tab] = (t, ws)
        for w in ws:
            owner_of.setdefault(w, set()).add(tab)
    if not waits:
        raise AnalysisBroken('no poll method with a poll slot')
    callers = {}
    for f in sorted(prog.all_funcs(), key=lambda f: f.q):
        if any(e['ev'] == 'call' and 'fnexpr' in e and h07.site_kind(f, e) == ('method', 'poll') for e in f.events()):
            for r in h07.nearest_roots(prog, f):
                callers[r.q] = r
    if not callers:
        raise AnalysisBroken('no call through the poll slot of the poll method')
    bad = {tab: [] for tab in waits}
    seen = set()
    first = None
    for q, r in sorted(callers.items()):
        g = h07.inline(prog, r, expand_methods=True)
        first = first or r

        def is_wait(e):
            return e['ev'] == 'call' and 'callee' in e and (e['loc'], e['callee']) in owner_of

        def refresh(e):
            # roles of the cached loop time and of its validity flag as C04's helpers discover them (the time value in
            # memory that iv_time_get() fills; the integer member every reader of the clock sets to one constant, the
            # "valid" value): robust against renaming / regrouping / flipped polarity of the flag
            if h04.invalidates(e):
                return True
            if e['ev'] == 'call' and e.get('callee') == 'iv_time_get' and e.get('args'):
                a = h07.strip_cast(e['args'][0])
                return isinstance(a, dict) and a.get('k') == 'addr' and h04.is_clock(a.get('e'))
            return False

        def tabs_of(e):
            """the poll method(s) whose slot function the (inlined) wait event lies in"""
            k = (e['loc'], e['callee'])
            inside = {tab for tab in owner_of[k] if any(c[2] == waits[tab][0].q for c in e.get('chain', []))}
            return inside or owner_of[k]

        def tr(e, S):
            if is_wait(e):
                return S | {(e['loc'], e['callee'], tab) for tab in tabs_of(e)}
            if refresh(e):
                return frozenset()
            return S
        _, ev_in = forward(g, frozenset(), tr, lambda a, b: a | b)
        for b, blk in g.blocks.items():
            for i, e in enumerate(blk.events):
                S = ev_in.get((b, i))
                if S is None:
                    continue
                if is_wait(e):
                    seen.add((e['loc'], e['callee']))
                if not S:
                    continue
                if e['ev'] == 'ret' and not e.get('chain'):
                    for w in S:
                        bad[w[2]].append((r, g, e, w))
        S = ev_in.get((g.exit, 0))
        if S and r.ret == 'void':
            for w in S:
                bad[w[2]].append((r, g, None, w))
    for tab, (t, ws) in sorted(waits.items()):
        if not (ws & seen):
            raise AnalysisBroken('%s.poll: its kernel wait is not reached from any caller of the poll slot' % tab)
        lst = bad[tab]
        b0 = lst[0] if lst else None
        ctx.ob('R-C07h', '%s:wake-up-invalidates-clock' % tab.replace('iv_fd_poll_method_', ''), not lst,
               loc=(b0[2]['loc'] if b0 and b0[2] is not None else t.loc),
               detail='after the kernel wait (%s) of %s the cached loop time is invalidated or re-read on every path before the caller '
                      'of the poll slot returns%s'
                      % ('/'.join(sorted({w[1] for w in ws})), t.name,
                         '' if not lst else '; not so on a path from %s at %s to the return of %s'
                         % (b0[3][1], b0[3][0].split('/')[-1], b0[0].name)), fn=t.q)
