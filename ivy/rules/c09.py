"""C09 — iv_event_raw: posts from threads, signal handlers, children reach the owner.

Anchors: the exported functions iv_event_raw_register / _unregister / _post (analysed with their
helpers inlined), the function(s) registration installs as input handler of the read
descriptor (whatever they are called; one, or one per mode), the members iv_event_raw.event_rfd /
event_wfd, and the mode flag = the one mutable file-scope object the functions' behaviour depends
on (a variable or a member of a file-scope struct; read directly, through accessors, or used as
index of constant tables).  See h09.py for the analyses.
R-C09d adds one more role: the eventfd-creating calls = the calls whose result registration registers on a
success path that ends in an eventfd mode; the flag may leave the eventfd values only after such a call failed
with ENOSYS.
"""
from ..core import AnalysisBroken, relpath, must_pass, walk
from ..analyses import callback_kind
from . import h09
from .h09 import EAGAIN, EINTR


def run(ctx):
    ctx.rule('R-C09a', 'drain, then dispatch: every path to the user handler passes through the read of the event descriptor and lies on '
                       'its success edge; the would-block arm returns without dispatch; other errors are fatal', floor=5)
    ctx.rule('R-C09b', 'posting cannot block: the write end is made non-blocking on every success path of registration (pipe mode: '
                       'explicitly; eventfd mode: it is the registered read descriptor); the post\'s only blocking-capable call is write, retried on EINTR', floor=9)
    ctx.rule('R-C09c', 'mode consistency: register, handler, post and unregister discriminate pipe/eventfd by the same flag; the read '
                       'size is 8 exactly in eventfd mode; unregister closes the write end exactly in pipe mode', floor=10)
    ctx.rule('R-C09d', 'the mode is one-way: only registration writes the mode flag; it never goes back from pipe mode (0) to an eventfd value, '
                       'and it leaves the eventfd values for 0 only in a state in which the latest eventfd-creating call of the invocation has '
                       'failed with ENOSYS (eventfd does not exist, so no eventfd-backed object can be registered); any other failure of that '
                       'call fails the registration and leaves the mode alone', floor=3)
    ctx.section(drain)
    ctx.section(nonblock)
    ctx.section(modes)
    ctx.section(oneway)


# --------------------------------------------------------------------------
# roles
# --------------------------------------------------------------------------

def _roles(ctx):
    prog = ctx.prog
    c = prog.__dict__.get('_c09_roles')
    if c is not None:
        return c
    reg = prog.fn('iv_event_raw_register')
    unreg = prog.fn('iv_event_raw_unregister')
    post = prog.fn('iv_event_raw_post')
    R = h09.inl(prog, reg)
    hs = h09.handler_of(prog, reg, R)
    if not hs:
        raise AnalysisBroken('raw event: no function installed as input handler of the read descriptor by registration')
    # one handler, or one per mode (chosen by registration): every one of them is the "handler" role
    c = {'register': (reg, R), 'unregister': (unreg, h09.inl(prog, unreg)), 'post': (post, h09.inl(prog, post)),
         'handlers': [(h, h09.inl(prog, h)) for h in hs]}
    prog.__dict__['_c09_roles'] = c
    return c


def _role_funcs(ro):
    return [ro['register'], ro['unregister'], ro['post']] + list(ro['handlers'])


def _the_flag(ctx):
    """The mode flag: the one mutable file-scope object the post function's behaviour depends on."""
    ro = _roles(ctx)
    prog = ctx.prog
    fl = h09.flags_read(prog, prog.unit_of(ro['post'][0]), ro['post'][1])
    if len(fl) != 1:
        # fall back to the flag common to all roles
        sets = [h09.flags_read(prog, prog.unit_of(f), g) for (f, g) in _role_funcs(ro)]
        common = set.intersection(*sets) if sets else set()
        if len(common) != 1:
            raise AnalysisBroken('raw event: mode flag not identified (post reads %s)' % sorted(fl))
        fl = common
    return sorted(fl)[0]


def _all_paths(ctx):
    """(paths of (inlined) registration that reach a return, paths abandoned at the loop bound), symbolically executed (cached)."""
    prog = ctx.prog
    c = prog.__dict__.get('_c09_allpaths')
    if c is None:
        reg, R = _roles(ctx)['register']
        sx = h09.SymExec(R, prog=prog, unit=prog.unit_of(reg))
        c = prog.__dict__['_c09_allpaths'] = (sx.run(), sx.cut)
    return c


def _registration(ctx):
    """Success paths of (inlined) registration, symbolically executed (cached)."""
    prog = ctx.prog
    c = prog.__dict__.get('_c09_regpaths')
    if c is not None:
        return c
    paths = _all_paths(ctx)[0]
    succ = []
    for p in paths:
        if p.end and p.end[0] == 'ret' and p.result is not None:
            c = p.const_of(p.result)
            if c is None:
                lo, hi, ne = p.bounds(p.result[1]) if p.result[0] in ('s', 'neg') else (0, 0, ())
                if lo > 0 or hi < 0 or 0 in ne:
                    continue
            elif c != 0:
                continue
            succ.append(p)
    if not succ:
        raise AnalysisBroken('iv_event_raw_register: no success path found')
    prog.__dict__['_c09_regpaths'] = succ
    return succ


def _this_key(ctx, p, store, path):
    reg, R = _roles(ctx)['register']
    this = reg.params[0]['name'] if reg.params else None
    if this is None:
        raise AnalysisBroken('iv_event_raw_register has no parameter')
    tv = store.get(this)
    return '%s->%s' % (h09.SymExec(R).vrepr(tv), path) if tv is not None else None


def _registered(ctx, p):
    """(snapshot of the store at the call, key of the object) of the iv_fd_register(&this->event_rfd) calls of a path"""
    out = []
    for c in p.calls:
        if c['callee'] == 'iv_fd_register' and c['args'] and c['args'][0][0] == 'addr' \
                and c['args'][0][1] == _this_key(ctx, p, p.store, 'event_rfd'):
            out.append((c['store'], c['args'][0][1]))
    return out


def _flag_values(p, flag, dom):
    """values of the flag possible at the end of the path"""
    fv = p.store.get(flag)
    if fv is None:
        return set(dom)
    fc = p.const_of(fv)
    if fc is not None:
        return {fc}
    if fv[0] in ('s', 'neg'):
        lo, hi, ne = p.bounds(fv[1])
        sg = 1 if fv[0] == 's' else -1
        return {v for v in dom if lo <= sg * v <= hi and sg * v not in ne}
    return set(dom)


def _installed(ctx, flag, dom):
    """{handler name: flag values with which registration can return success having registered the read
    descriptor with that handler}"""
    out = {}
    for p in _registration(ctx):
        for (st, k) in _registered(ctx, p):
            hv = st.get(k + '.handler_in')
            if hv is not None and hv[0] == 'fn':
                out.setdefault(hv[1], set()).update(_flag_values(p, flag, dom))
    return out


def _by_loc(events):
    out = {}
    for e in events:
        out.setdefault(e.get('loc'), []).append(e)
    return out


def _exit_states(G, ev_in):
    return ev_in.get((G.exit, 0), frozenset())


# --------------------------------------------------------------------------
# R-C09a: the handler
# --------------------------------------------------------------------------

def drain(ctx):
    for (h, H) in _roles(ctx)['handlers']:
        _drain1(ctx, h, H)


def _drain1(ctx, h, H):
    is_src = lambda e: e['ev'] == 'call' and e.get('callee') == 'read'
    is_sink = lambda e: callback_kind(e) == ('callback', 'event_raw') or h09.is_user_handler_call(H, e)
    sites = [e for e in H.events() if is_sink(e)]
    reads = [e for e in H.events() if is_src(e)]
    if not sites or not reads:
        raise AnalysisBroken('raw event handler %s: read or dispatch not found' % h.name)
    st_in = h09.track(H, is_src, is_sink)
    for loc, evs in sorted(_by_loc(reads).items()):
        ctx.ob('R-C09a', 'handler:reads-the-read-end', all(e.get('args') and h09.is_read_end(H, e['args'][0]) for e in evs), loc=loc,
               detail='the descriptor read by the handler is event_rfd.fd (the one registration registered)', fn=h.q)
    for loc, evs in sorted(_by_loc(sites).items()):
        S = set()
        for cs in evs:
            S |= st_in.get((cs['_b'], cs['_i']), frozenset())
        ctx.ob('R-C09a', 'handler:read-before-dispatch', all(s.n for s in S), loc=loc,
               detail='the event descriptor is read (drained) on every path to the user handler', fn=h.q)
        ok = all(s.n and s.sign == frozenset('+') for s in S)
        bad = sorted({''.join(sorted(s.sign)) for s in S if s.n and s.sign != frozenset('+')})
        ctx.ob('R-C09a', 'handler:dispatch-on-success-edge', ok, loc=loc,
               detail='the handler runs only when the latest read returned > 0 (something was drained)'
                      + ('' if ok else '; reached with possible result signs %s' % bad), fn=h.q)
    # a result that may be positive must not be dropped (overwritten by another read, or the function returns) without dispatch
    lost = []
    for e in reads:
        for s in st_in.get((e['_b'], e['_i']), frozenset()):
            if s.n and not s.disp and '+' in s.sign:
                lost.append('re-read at %s' % relpath(e['loc']))
    ex = _exit_states(H, st_in)
    for s in ex:
        if s.n and not s.disp and '+' in s.sign:
            lost.append('return after the read at %s' % relpath(s.cur[1]))
    ctx.ob('R-C09a', 'handler:drained-implies-dispatch', not lost, loc=h.loc,
           detail='no path drops the result of a read that may have returned data without calling the handler '
                  '(a later would-block read must not cancel the dispatch)' + ('' if not lost else ': ' + ', '.join(sorted(set(lost)))), fn=h.q)
    # a failed read ends the function silently only if it failed with EAGAIN
    quiet = [s for s in ex if s.n and not s.disp and '-' in s.sign and not (s.errno_is(EAGAIN) or s.errno_is(EINTR))]
    ctx.ob('R-C09a', 'handler:errors-other-than-EAGAIN-fatal', bool(ex) and not quiet, loc=h.loc,
           detail='the handler returns after a failed read only when errno is EAGAIN (or EINTR: the level-triggered descriptor fires again); '
                  'any other read error is fatal (a lost descriptor would lose posts silently)', fn=h.q)


# --------------------------------------------------------------------------
# R-C09b: registration makes the write end non-blocking; post only writes, retried on EINTR
# --------------------------------------------------------------------------

def _label(p, v):
    if v is None:
        return None
    if v[0] == 's':
        return p.label.get(v[1])
    return None


O_NONBLOCK = 0o4000
F_SETFL = 4
F_GETFL = 3


def _sets_nonblock(p, c, W):
    """the call makes descriptor value W non-blocking: iv_fd_set_nonblock(W), fcntl(W, F_SETFL, <value with O_NONBLOCK set>), fcntl(W, F_GETFL) found to have it,
    or W is an end of a pipe2(..., flags with O_NONBLOCK) call"""
    a = c['args']
    if c['callee'] == 'iv_fd_set_nonblock':
        return bool(a) and a[0] == W
    if c['callee'] == 'fcntl' and len(a) >= 3 and a[0] == W and p.const_of(a[1]) == F_SETFL:
        v = p.const_of(a[2])
        if v is not None:
            return bool(v & O_NONBLOCK)
        lb = _label(p, a[2])
        return bool(lb) and lb[0] == 'or' and bool(lb[1] & O_NONBLOCK)
    if c['callee'] == 'fcntl' and len(a) >= 2 and a[0] == W and p.const_of(a[1]) == F_GETFL:
        # the path established that O_NONBLOCK already is set in the flags read back
        return bool(p.bits.get(c['res'][1], 0) & O_NONBLOCK)
    if c['callee'] == 'pipe2' and len(a) >= 2:
        lw = _label(p, W)
        v = p.const_of(a[1])
        return bool(lw) and lw[0] == 'pipe' and lw[2] == c['id'] and v is not None and bool(v & O_NONBLOCK)
    return False


def _describe(p):
    return '; '.join(p.conds[-8:])


def nonblock(ctx):
    prog = ctx.prog
    ro = _roles(ctx)
    reg, R = ro['register']
    hnames = {h.name for (h, _) in ro['handlers']}
    flag = _the_flag(ctx)
    this = reg.params[0]['name'] if reg.params else None
    if this is None:
        raise AnalysisBroken('iv_event_raw_register has no parameter')
    succ = _registration(ctx)

    sx = h09.SymExec(R)

    def field_key(p, store, path):
        tv = store.get(this)
        return '%s->%s' % (sx.vrepr(tv), path) if tv is not None else None

    def field(p, store, path):
        # value of <this>-><path> in a store snapshot
        key = field_key(p, store, path)
        return store.get(key) if key else None

    res = {'reg': [], 'same': [], 'pipe1': [], 'nb': []}
    n_pipe = n_efd = 0
    for p in succ:
        fv = p.store.get(flag)
        fc = p.const_of(fv) if fv is not None else None
        may_pipe = may_efd = True
        if fv is not None:
            if fc is not None:
                may_pipe, may_efd = (fc == 0), (fc != 0)
            elif fv[0] in ('s', 'neg'):
                lo, hi, ne = p.bounds(fv[1])
                if lo > 0 or hi < 0 or 0 in ne:
                    may_pipe = False
        W = field(p, p.store, 'event_wfd')
        # registration of the read end: iv_fd_register(&this->event_rfd) with .fd a descriptor (result of a call), .handler_in == handler,
        # and .fd not changed afterwards
        okreg = False
        Rv = None
        for c in p.calls:
            if c['callee'] == 'iv_fd_register' and c['args'] and c['args'][0][0] == 'addr' and c['args'][0][1] == field_key(p, p.store, 'event_rfd'):
                k = c['args'][0][1]
                fdv = c['store'].get(k + '.fd')
                hv = c['store'].get(k + '.handler_in')
                later = p.store.get(k + '.fd')
                Rv = fdv
                if fdv is not None and hv is not None and hv[0] == 'fn' and hv[1] in hnames and _label(p, fdv) and _label(p, fdv)[0] in ('pipe', 'call') \
                        and (later is None or later == fdv):
                    okreg = True
        if not okreg:
            res['reg'].append(p)
        if may_efd:
            n_efd += 1
            lw = _label(p, W)
            if not (W is not None and W == Rv and lw and lw[0] == 'call'):
                res['same'].append(p)
        if may_pipe:
            n_pipe += 1
            lw, lr = _label(p, W), _label(p, Rv)
            if not (lw and lr and lw[0] == 'pipe' and lr[0] == 'pipe' and lw[1] == 1 and lr[1] == 0 and lw[2] == lr[2]):
                res['pipe1'].append(p)
            if W is None or not any(_sets_nonblock(p, c, W) for c in p.calls):
                res['nb'].append(p)

    def first(ps):
        return ('' if not ps else ' -- violated on the path: ' + _describe(ps[0]))
    ctx.ob('R-C09b', 'register:eventfd-both-ends-same-descriptor', n_efd > 0 and not res['same'], loc=reg.loc,
           detail='on every success path that ends in eventfd mode event_wfd holds the very descriptor stored in event_rfd.fd, '
                  'and that descriptor is the result of a call' + first(res['same']), fn=reg.q)
    ctx.ob('R-C09b', 'register:read-end-registered', not res['reg'], loc=reg.loc,
           detail='on every success path iv_fd_register(&event_rfd) ran with event_rfd.fd = the read descriptor and handler_in = %s '
                  '(registration sets O_NONBLOCK)' % '/'.join(sorted(hnames)) + first(res['reg']), fn=reg.q)
    ctx.ob('R-C09b', 'register:write-end-is-fd[1]', n_pipe > 0 and not res['pipe1'], loc=reg.loc,
           detail='on every success path that ends in pipe mode event_wfd is element 1 and event_rfd.fd element 0 of the array filled by one pipe() call'
                  + first(res['pipe1']), fn=reg.q)
    ctx.ob('R-C09b', 'register:pipe-write-end-nonblocking', n_pipe > 0 and not res['nb'], loc=reg.loc,
           detail='on every success path that ends in pipe mode iv_fd_set_nonblock() was applied to the descriptor stored in event_wfd'
                  + first(res['nb']), fn=reg.q)

    # ---- post --------------------------------------------------------------
    po, P = ro['post']
    calls = [e for e in P.events() if e['ev'] == 'call']
    names = {e.get('callee') for e in calls}
    ctx.ob('R-C09b', 'post:only-write', names <= {'write', '__errno_location'}, loc=po.loc,
           detail='calls made by the post function: %s (safe in signal handlers and forked children)' % sorted(str(n) for n in names), fn=po.q)
    writes = [e for e in calls if e.get('callee') == 'write']
    if not writes:
        raise AnalysisBroken('iv_event_raw_post: no write found')
    is_src = lambda e: e['ev'] == 'call' and e.get('callee') == 'write'
    st_in = h09.track(P, is_src)
    ex = _exit_states(P, st_in)
    ctx.ob('R-C09b', 'post:writes-on-every-path', bool(ex) and all(s.n for s in ex), loc=po.loc,
           detail='every path through the post function performs a write', fn=po.q)
    for loc, evs in sorted(_by_loc(writes).items()):
        ctx.ob('R-C09b', 'post:writes-to-write-end', all(e.get('args') and h09.is_write_end(P, e['args'][0]) for e in evs), loc=loc,
               detail='the descriptor written is event_wfd', fn=po.q)
        bad = [s for s in ex if s.n and s.cur == ('write', loc) and '-' in s.sign and s.errno_may_be(EINTR)]
        ctx.ob('R-C09b', 'post:write-retried-on-EINTR', bool(ex) and not bad, loc=loc,
               detail='the post function does not return while this write may have failed with EINTR (it is retried)', fn=po.q)
    # ... and only then: a write that succeeded or failed otherwise (EAGAIN: pipe full, i.e. a post is pending anyway) is not repeated
    again = []
    for e in writes:
        for s in st_in.get((e['_b'], e['_i']), frozenset()):
            if s.n and not (s.sign == frozenset('-') and s.errno_is(EINTR)):
                again.append(relpath(e['loc']))
    ctx.ob('R-C09b', 'post:retry-only-on-EINTR', not again, loc=po.loc,
           detail='a write is executed after an earlier one only when that one failed with EINTR (retrying on a full pipe would block the poster)'
                  + ('' if not again else ': ' + ', '.join(sorted(set(again)))), fn=po.q)


# --------------------------------------------------------------------------
# R-C09c: mode consistency
# --------------------------------------------------------------------------

def modes(ctx):
    prog = ctx.prog
    ro = _roles(ctx)
    flag = _the_flag(ctx)
    unit = prog.unit_of(ro['post'][0])
    dom = h09.flag_domain(prog, unit, flag)
    several = len(ro['handlers']) > 1
    inst_modes = _installed(ctx, flag, dom) if several else {}
    roles = [('handler', f, G) for (f, G) in ro['handlers']] + [(r, ) + ro[r] for r in ('register', 'unregister', 'post')]
    for (role, f, G) in roles:
        fl = h09.flags_read(prog, prog.unit_of(f), G)
        inst = 'handler:mode-flag' if role == 'handler' else '%s:mode-flag' % f.name
        wr = role != 'register' and h09.flag_written(G, flag)
        ok = fl == {flag}
        note = ''
        if role == 'handler' and several:
            # a handler that registration installs for some of the modes only was selected by the flag; it need not test it again
            im = inst_modes.get(f.name, set())
            ok = fl <= {flag} and (fl == {flag} or (bool(im) and im < set(dom)))
            note = '; installed by registration when %s is in %s' % (flag, sorted(im))
        ctx.ob('R-C09c', inst, ok and not wr, loc=f.loc,
               detail='mode discriminators read: %s (the post function reads %s)%s%s' % (sorted(fl), flag, '; writes the flag' if wr else '', note), fn=f.q)

    # ---- sizes of the read (handler) and of the write (post) per mode
    def sizes(fgs, callee, inst, pipe_min):
        reached = set()
        for (f, G, values) in fgs:
            if h09.flag_written(G, flag):
                raise AnalysisBroken('%s writes the mode flag' % f.name)
            evs = [e for e in G.events() if e['ev'] == 'call' and e.get('callee') == callee and len(e.get('args', [])) >= 3]
            if not evs:
                raise AnalysisBroken('%s: %s not found' % (f.name, callee))
            if not values:
                raise AnalysisBroken('%s: no mode in which it is used' % f.name)
            seen = {}
            for v in sorted(values):
                g, asg = h09.specialise(G, flag, v, prog, unit)
                envs = h09.const_envs(g, asg, prog, unit)
                live = {id(e) for e in h09.reachable_events(g)}
                for e in evs:
                    if id(e) not in live:
                        continue
                    n = h09.value_at(envs, asg, e, e['args'][2], prog, unit, G)
                    seen.setdefault(e['loc'], []).append((v, n))
            if not seen:
                raise AnalysisBroken('%s: no %s reachable under any mode' % (f.name, callee))
            mine = {v for l in seen.values() for (v, n) in l}
            reached |= mine
            for loc, l in sorted(seen.items()):
                ok = all(n is not None and (n == 8 if v != 0 else n >= pipe_min) for (v, n) in l)
                ctx.ob('R-C09c', inst, ok, loc=loc,
                       detail='%s size per value of %s: %s (must be exactly 8 when the flag is non-zero: eventfd; at least %d in pipe mode)'
                              % (callee, flag, ', '.join('%s -> %s' % (v, n) for (v, n) in l), pipe_min), fn=f.q)
            if len(fgs) > 1:
                ctx.ob('R-C09c', inst + ':every-mode', mine == set(values), loc=f.loc,
                       detail='a %s of the event descriptor is reachable for every value of %s with which %s is in use (%s of %s)'
                              % (callee, flag, f.name, sorted(mine), sorted(values)), fn=f.q)
        f0 = fgs[0][0]
        ctx.ob('R-C09c', inst + ':every-mode', reached == set(dom), loc=f0.loc if len(fgs) == 1 else ro['register'][0].loc,
               detail='a %s of the event descriptor is reachable for every value of %s (%s)' % (callee, flag, sorted(reached)),
               fn=f0.q if len(fgs) == 1 else ro['register'][0].q)
    sizes([(f, G, inst_modes.get(f.name, set()) if several else set(dom)) for (f, G) in ro['handlers']], 'read', 'handler:read-size', 8)
    sizes([ro['post'] + (set(dom),)], 'write', 'post:write-size', 1)

    # ---- unregister
    u, U = ro['unregister']
    if h09.flag_written(U, flag):
        raise AnalysisBroken('%s writes the mode flag' % u.name)
    clw = [e for e in U.events() if e['ev'] == 'call' and e.get('callee') == 'close' and e.get('args') and h09.is_write_end(U, e['args'][0])]
    clr = [e for e in U.events() if e['ev'] == 'call' and e.get('callee') == 'close' and e.get('args') and h09.is_read_end(U, e['args'][0])]
    unr = [e for e in U.events() if e['ev'] == 'call' and e.get('callee') == 'iv_fd_unregister' and e.get('args') and h09.is_read_end_object(U, e['args'][0])]
    okw, okr = True, True
    why = []
    for v in dom:
        g, asg = h09.specialise(U, flag, v, prog, unit)
        live = {id(e) for e in h09.reachable_events(g)}
        mpw = must_pass(g, lambda e: any(e is x for x in clw)).get((g.exit, 0))
        if v == 0 and not mpw:
            okw = False
            why.append('%s == 0: a path returns without close(event_wfd)' % flag)
        if v != 0 and any(id(e) in live for e in clw):
            okw = False
            why.append('%s == %s: close(event_wfd) reachable' % (flag, v))
        mpr = must_pass(g, lambda e: any(e is x for x in clr)).get((g.exit, 0))
        mpu = must_pass(g, lambda e: any(e is x for x in unr)).get((g.exit, 0))
        if not (mpr and mpu):
            okr = False
    ctx.ob('R-C09c', 'unregister:write-end-closed-iff-pipe', okw, loc=u.loc,
           detail='close(event_wfd) on every path exactly when the flag is 0 (eventfd: same descriptor, closed once)'
                  + ('' if okw else ': ' + '; '.join(why)), fn=u.q)
    ctx.ob('R-C09c', 'unregister:read-end-unregistered-and-closed', okr, loc=u.loc,
           detail='iv_fd_unregister(&event_rfd) and close(event_rfd.fd) on every path in every mode', fn=u.q)


# --------------------------------------------------------------------------
# R-C09d: the mode only ever changes while no object of the other mode can exist
# --------------------------------------------------------------------------

ENOSYS = 38


def _vals(facts, v, dom):
    """values of the flag's domain that the symbolic value v may denote under a snapshot of the path facts"""
    if v is None:
        return set(dom)
    if v[0] == 'c':
        return {v[1]}
    if v[0] in ('s', 'neg'):
        lo, hi, ne = facts.get(v[1], (-h09.INF, h09.INF, frozenset()))
        sg = 1 if v[0] == 's' else -1
        return {d for d in dom if lo <= sg * d <= hi and sg * d not in ne}
    return set(dom)


def _failed(facts, c):
    """the call is known to have returned a negative value"""
    r = c['res']
    return r[0] == 's' and facts.get(r[1], (-h09.INF, h09.INF, frozenset()))[1] < 0


def _succeeded(facts, c):
    r = c['res']
    return r[0] == 's' and facts.get(r[1], (-h09.INF, h09.INF, frozenset()))[0] >= 0


def _errno_left(facts, c):
    """(lo, hi, excluded) of errno as left by the call"""
    en = c.get('errno')
    if en is None:
        return (1, h09.INF, frozenset())
    return facts.get(en[1], (1, h09.INF, frozenset()))


def _absent(facts, c):
    """the call is known to have failed with ENOSYS: what it creates does not exist on this kernel (and never did)"""
    lo, hi, _ = _errno_left(facts, c)
    return _failed(facts, c) and lo == hi == ENOSYS


def _efd_sources(ctx, flag, dom):
    """The eventfd-creating calls, by role: the calls whose result registration registers as read descriptor / stores as
    write end on a success path that ends in an eventfd mode: {(callee, loc)}"""
    out = set()
    for p in _registration(ctx):
        if not any(v != 0 for v in _flag_values(p, flag, dom)):
            continue
        vals = [st.get(k + '.fd') for (st, k) in _registered(ctx, p)]
        wk = _this_key(ctx, p, p.store, 'event_wfd')
        vals.append(p.store.get(wk) if wk else None)
        for v in vals:
            lb = _label(p, v)
            if lb and lb[0] == 'call':
                out.add((lb[1], lb[2]))
    return out


def _latest(calls, sources):
    for c in reversed(calls):
        if (c['callee'], c['loc']) in sources:
            return c
    return None


def _errno_text(facts, c):
    lo, hi, ne = _errno_left(facts, c)
    if lo == hi:
        return 'errno == %d' % lo
    return 'errno unknown' + (' (not %s)' % '/'.join(str(x) for x in sorted(ne)) if ne else '')


def _unit_code(prog, unit):
    """q-names of the functions that are code of the translation unit: defined in its file, or (header functions) called
    from there; the same header function used by another unit works on that unit's own copy of the file-scope state"""
    seen = set()
    work = [f for f in prog.all_funcs() if prog.unit_of(f) == unit]
    while work:
        f = work.pop()
        if f.q in seen:
            continue
        seen.add(f.q)
        for e in f.events():
            names = [e['callee']] if e['ev'] == 'call' and 'callee' in e else []
            # a function whose address is taken may be called as well
            names += [x['name'] for x in walk(e) if x.get('k') == 'var' and x.get('vk') == 'func']
            for n in names:
                t = prog.resolve(unit, n)
                if t is not None and t.blocks and prog.unit_of(t) in (unit, None):
                    work.append(t)
    return seen


def oneway(ctx):
    prog = ctx.prog
    ro = _roles(ctx)
    reg, R = ro['register']
    flag = _the_flag(ctx)
    unit = prog.unit_of(ro['post'][0])
    dom = h09.flag_domain(prog, unit, flag)
    root = h09._steps(flag)[0].split('[')[0]
    done, cut = _all_paths(ctx)
    sources = _efd_sources(ctx, flag, dom)

    # ---- who writes the flag: only code that runs as part of registration (the other roles are covered by R-C09c <role>:mode-flag)
    inreg = {e.get('loc') for e in R.events() if e['ev'] == 'store'}
    mine = _unit_code(prog, unit)
    outside = sorted({relpath(e.get('loc')) for (f, e) in prog.global_writers(root)
                      if h09._flag_store(e, flag) and f.q in mine and e.get('loc') not in inreg})
    # ... and no other entry point of the unit executes one of those stores (through a helper shared with registration)
    for f in sorted(prog.all_funcs(), key=lambda f_: f_.q):
        if prog.unit_of(f) == unit and not f.static and f.q != reg.q and f.blocks and h09.flag_written(h09.inl(prog, f), flag):
            outside.append('executed by %s' % f.name)
    ctx.ob('R-C09d', 'mode-flag:written-only-by-registration', not outside, loc=reg.loc,
           detail='every store to %s is executed by %s (helpers inlined): only there is it known whether an object of the other mode can exist'
                  % (flag, reg.name) + ('' if not outside else '; other stores: ' + ', '.join(outside)), fn=reg.q)

    # ---- every store to the flag, in every path context
    per = {}
    for p in list(done) + list(cut):
        for w in p.stores:
            e = w['event']
            exact = w['key'] == flag and e.get('op') == '='
            if not (exact or w['key'] == flag or h09._flag_store(e, flag)):
                continue
            facts = w['facts']
            O = _vals(facts, w['old'], dom) if w['key'] == flag else set(dom)
            N = _vals(facts, w['new'], dom) if exact else set(dom)
            bad = per.setdefault(e.get('loc'), [])
            where = '; '.join(p.conds[max(0, w['nconds'] - 6):w['nconds']])
            if 0 in O and any(n != 0 for n in N):
                bad.append('stores %s while %s may be 0: objects registered in pipe mode would be treated as eventfds from now on (path: %s)'
                           % (sorted(n for n in N if n != 0), flag, where))
            if any(o != 0 for o in O) and 0 in N and sources:
                c = _latest(p.calls[:w['ncalls']], sources)
                if c is None:
                    bad.append('stores 0 while %s may be %s although no eventfd-creating call was attempted in this invocation: '
                               'objects registered in eventfd mode may exist (path: %s)' % (flag, sorted(o for o in O if o != 0), where))
                elif not _absent(facts, c):
                    bad.append('stores 0 while %s may be %s, but the latest eventfd-creating call (%s at %s) is not known to have failed with '
                               'ENOSYS here (%s, %s): a transient failure would switch every eventfd-backed object to pipe mode (path: %s)'
                               % (flag, sorted(o for o in O if o != 0), c['callee'], relpath(c['loc']),
                                  'failed' if _failed(facts, c) else 'result not known to be negative', _errno_text(facts, c), where))
    if not per:
        raise AnalysisBroken('%s never writes the mode flag %s (no fallback to examine)' % (reg.name, flag))
    for loc, bad in sorted(per.items(), key=lambda kv: str(kv[0])):
        ctx.ob('R-C09d', 'register:mode-switch-one-way', not bad, loc=loc,
               detail='this store to %s changes the mode (zero <-> non-zero) only from an eventfd value to 0, and only when the latest '
                      'eventfd-creating call (%s) of the invocation has failed with ENOSYS'
                      % (flag, ', '.join(sorted('%s at %s' % (c, relpath(l)) for (c, l) in sources)) or 'none exists')
                      + ('' if not bad else ' -- ' + bad[0]), fn=reg.q)

    # ---- a failure of the eventfd-creating call that does not mean "absent" fails the registration
    bad = []
    for p in _registration(ctx):
        c = _latest(p.calls, sources)
        if c is None or _succeeded(p.facts, c) or _absent(p.facts, c):
            continue
        bad.append('%s at %s: %s, %s (path: %s)' % (c['callee'], relpath(c['loc']), 'failed' if _failed(p.facts, c) else 'result unknown',
                                                     _errno_text(p.facts, c), _describe(p)))
    ctx.ob('R-C09d', 'register:other-eventfd-failure-fails-registration', not bad, loc=reg.loc,
           detail='registration returns success only when the latest eventfd-creating call succeeded or failed with ENOSYS (then the '
                  'pipe is the mode of every object); after any other failure the object cannot be backed consistently with the mode flag'
                  + ('' if not bad else ' -- returns success after ' + bad[0]), fn=reg.q)
