"""Helpers of the C13 rules.

Everything here is formulated on *roles* and *calling contexts*: a context is an entry point of the library (exported
function, or a function whose address is taken: handler, thread body, destructor) with every static helper inlined
(exported functions are operations in their own right and are not entered).  Sites are found by what they do
(`free` of a record, `started_threads--`, `pthr_create`, ...), objects by their record type, fields by
(record, field); nothing depends on the name of a static function, of a local or of a parameter.
"""
import copy
import json
from ..core import (AnalysisBroken, Inliner, canon, strip, walk, last_member, lvalue_steps, norm_cond, forward,
                    root_var, is_int, is_null, PURE_CALLS, subst, simplify)
from ..analyses import is_call, locksets, held, lock_effect, _mem_keys
from .. import roles

POOL = 'work_pool_priv.lock'
INT0 = ('int', 0)


# --------------------------------------------------------------------------
# contexts
# --------------------------------------------------------------------------

def _cache(prog):
    c = getattr(prog, '_h13_cache', None)
    if c is None:
        c = {}
        prog._h13_cache = c
    return c


def ctx_of(prog, f):
    """f with every static helper inlined (normalised: flags partitioned, copies propagated)."""
    c = _cache(prog)
    key = ('ctx', f.q)
    if key not in c:
        g = Inliner(prog, stop=lambda t: not t.static).inline(f)
        substitute_ptr_locals(g)
        c[key] = g
    return c[key]


def substitute_ptr_locals(g):
    """`struct iv_event *ev = &thr->dead; iv_event_post(ev);` reads like `iv_event_post(&thr->dead)`.
    core.copy_propagate does this for cached *values* (`idx = fd->u.index`); this is the same available-copies analysis
    for locals that hold an *address* (`&P->f`, `container_of(p, T, m)`): a read of the local is replaced by the
    address expression wherever, on every path from the definition, neither the local nor any variable the expression
    reads was re-assigned (pointer fields it reads through must not be written anywhere in the context)."""
    taken, stored = set(), set()
    for e in g.events():
        for x in walk(e):
            if x.get('k') == 'addr':
                v = strip(x['e'])
                if isinstance(v, dict) and v.get('k') == 'var':
                    taken.add(v['name'])
        if e['ev'] == 'store':
            stored |= set(lvalue_steps(e['lhs']))

    def usable(name, rhs):
        r = strip(rhs)
        if not (isinstance(r, dict) and r.get('k') in ('addr', 'container_of')):
            return False
        if r.get('k') == 'addr' and strip(r['e']).get('k') == 'var':
            return False                      # &local: not a path into an object
        for y in walk(rhs):
            k = y.get('k')
            if k in ('call', 'assign', 'incdec', 'stmtexpr', 'cond', 'other', 'deep', 'va_arg', 'deref', 'index'):
                return False
            if k == 'var' and y.get('name') == name:
                return False
            if k == 'load':
                inner = strip(y)
                if isinstance(inner, dict) and inner.get('k') == 'member' and (inner.get('record'), inner.get('field')) in stored:
                    return False
        return True

    def defn(e):
        if e['ev'] == 'store' and e.get('op') == '=' and 'rhs' in e:
            l = strip(e['lhs'])
            if isinstance(l, dict) and l.get('k') == 'var' and l.get('vk') == 'local' and l['name'] not in taken and usable(l['name'], e['rhs']):
                reads = frozenset(y['name'] for y in walk(e['rhs']) if y.get('k') == 'var' and y.get('vk') != 'func')
                return (l['name'], json.dumps(strip(e['rhs']), sort_keys=True, default=str), reads)
        return None
    if not any(defn(e) for e in g.events()):
        return 0

    def tr(e, S):
        if e['ev'] == 'store':
            l = strip(e['lhs'])
            if isinstance(l, dict) and l.get('k') == 'var':
                S = frozenset(x for x in S if x[0] != l['name'] and l['name'] not in x[2])
        elif e['ev'] == 'decl':
            S = frozenset(x for x in S if x[0] != e['name'] and e['name'] not in x[2])
        elif e['ev'] == 'call':
            for a_ in e.get('args', []):
                a_ = strip(a_)
                if isinstance(a_, dict) and a_.get('k') == 'addr':
                    v = strip(a_['e'])
                    if isinstance(v, dict) and v.get('k') == 'var':
                        S = frozenset(x for x in S if x[0] != v['name'] and v['name'] not in x[2])
        d = defn(e)
        if d:
            S = frozenset(x for x in S if x[0] != d[0]) | {d}
        return S
    _, ev_in = forward(g, frozenset(), tr, lambda x, y: x & y)
    n_ = [0]

    def rewrite(x, S):
        avail = {v: ex for (v, ex, _) in S}
        if not avail:
            return x
        def rep(nd):
            if nd.get('k') == 'load':
                inner = nd.get('e')
                if isinstance(inner, dict) and inner.get('k') == 'var' and inner.get('vk') == 'local' and inner['name'] in avail:
                    n_[0] += 1
                    out = json.loads(avail[inner['name']])
                    out['_was'] = inner['name']
                    return out
            return None
        return simplify(subst(x, rep))
    for bid, blk in g.blocks.items():
        for i, e in enumerate(blk.events):
            S = ev_in.get((bid, i))
            if not S:
                continue
            if e['ev'] == 'load':
                if strip(e['e']).get('k') != 'var':
                    e['e'] = rewrite(e['e'], S)
                continue
            for key in ('rhs', 'args', 'fnexpr', 'value'):
                if key in e:
                    e[key] = rewrite(e[key], S)
            if e['ev'] == 'store' and strip(e['lhs']).get('k') != 'var':
                e['lhs'] = rewrite(e['lhs'], S)
        S = ev_in.get((bid, len(blk.events)))
        if S and blk.term and blk.term.get('cond') is not None:
            blk.term = dict(blk.term, cond=rewrite(blk.term['cond'], S))
    g._h13_al = None
    g._h13_fc = None
    return n_[0]


def contexts(prog, site_pred, key=None):
    """[(root, inlined root, [site events])] for every entry point whose inlined, normalised body contains a site.
    Every entry point of the library is looked at (a site may only become recognisable after normalisation, e.g. a
    counter decremented through a pointer local)."""
    c = _cache(prog)
    if key is not None and ('cx', key) in c:
        return c[('cx', key)]
    out = []
    for r in roles.roots(prog):
        g = ctx_of(prog, r)
        sites = [e for e in g.events() if site_pred(e)]
        if sites:
            out.append((r, g, sites))
    if key is not None:
        c[('cx', key)] = out
    return out


def func_arg(prog, g, e, i):
    """The repository function whose address is argument i of call event e (None when it is not a function name)."""
    a = strip(e['args'][i]) if len(e.get('args', [])) > i else None
    if isinstance(a, dict) and a.get('k') == 'var' and a.get('vk') != 'func':
        a = resolve(a, ptr_aliases(g))
    if isinstance(a, dict) and a.get('k') == 'addr':
        a = strip(a['e'])
    if not (isinstance(a, dict) and a.get('k') == 'var' and a.get('vk') == 'func'):
        return None
    origin = prog.funcs.get(e.get('fn')) if e.get('fn') else None
    u = prog.unit_of(origin or g)
    return prog.resolve(u, a['name']) if u else prog.funcs.get(a['name'])


def lm_arg(e, i):
    a = strip(e['args'][i]) if len(e.get('args', [])) > i else None
    if isinstance(a, dict) and a.get('k') == 'addr':
        return last_member(a['e'])
    return None


def handlers_of(prog, record, field, files=None):
    """Functions stored into <record>.<field>.handler in any context (the store may sit in a static helper that
    receives the handler or the embedded object as a parameter: the inlined context shows the actual values)."""
    c = _cache(prog)
    key = ('h', record, field)
    if key in c:
        return c[key]
    def site(e):
        if e['ev'] != 'store':
            return False
        st = lvalue_steps(e['lhs'])
        return bool(st) and st[0][1] == 'handler' and ((record, field) in st or
                                                      any((x.get('record'), x.get('field')) == (record, field) for x in walk(e['lhs']) if x.get('k') == 'member'))
    out = []
    # the embedded object may reach the storing helper as a bare pointer parameter: look at every context that mentions the field
    def mentions(e):
        return any(x.get('k') == 'member' and (x.get('record'), x.get('field')) == (record, field) for x in walk(e))
    for (root, g, sites) in contexts(prog, mentions, key=('mentions', record, field)):
        for e in g.events():
            if site(e) and 'rhs' in e:
                r = strip(e['rhs'])
                if isinstance(r, dict) and r.get('k') == 'addr':
                    r = strip(r['e'])
                if isinstance(r, dict) and r.get('k') == 'var' and r.get('vk') == 'func':
                    origin = prog.funcs.get(e.get('fn')) if e.get('fn') else None
                    u = prog.unit_of(origin or g)
                    t = prog.resolve(u, r['name']) if u else prog.funcs.get(r['name'])
                    if t is not None and t not in out:
                        out.append(t)
    c[key] = out
    return out


def thread_bodies(prog):
    """Functions started as threads through the library's thread helper (argument of iv_thread_create)."""
    c = _cache(prog)
    if 'bodies' in c:
        return c['bodies']
    out = []
    for (root, g, sites) in contexts(prog, lambda e: is_call(e, 'iv_thread_create'), key='iv_thread_create'):
        for e in sites:
            t = func_arg(prog, g, e, 1)
            if t is not None and t not in out:
                out.append(t)
    c['bodies'] = out
    return out


def by_loc(events):
    return roles.by_loc(events)


# --------------------------------------------------------------------------
# generic dataflow helpers
# --------------------------------------------------------------------------

def reaches_exit(fn):
    """Blocks from which the function's exit is reachable (the others end in a noreturn call)."""
    c = getattr(fn, '_h13_live', None)
    if c is not None:
        return c
    preds = fn.preds()
    seen = {fn.exit}
    st = [fn.exit]
    while st:
        x = st.pop()
        for p in preds.get(x, ()):
            if p not in seen:
                seen.add(p)
                st.append(p)
    fn._h13_live = seen
    return seen


def dnf(c, pol=True, limit=16):
    """Disjunctive normal form of a branch condition taken with polarity pol: a list of alternatives, each a list of
    norm_cond atoms that all hold.  `!(A && B)` is `!A` or `!B`: a fact follows from the edge iff it follows from
    every alternative."""
    c0 = strip(c)
    if isinstance(c0, dict) and c0.get('k') == 'un' and c0.get('op') == '!':
        return dnf(c0['e'], not pol, limit)
    if isinstance(c0, dict) and c0.get('k') == 'bin' and c0.get('op') in ('&&', '||'):
        conj = (c0['op'] == '&&') == pol
        L, R = dnf(c0['l'], pol, limit), dnf(c0['r'], pol, limit)
        if conj:
            out = [a + b for a in L for b in R]
        else:
            out = L + R
        return out if len(out) <= limit else [[]]
    if isinstance(c0, dict) and c0.get('k') == 'bin' and c0.get('op') in ('==', '!=') :
        # (x && y) != 0 style wrappers are unwrapped by norm_cond itself when simple; compound ones here
        for a, b in ((c0['l'], c0['r']), (c0['r'], c0['l'])):
            a0 = strip(a)
            if (is_int(b, 0) or is_null(b)) and isinstance(a0, dict) and a0.get('k') == 'bin' and a0.get('op') in ('&&', '||'):
                return dnf(a0, pol == (c0['op'] == '!='), limit)
    return [list(norm_cond(c, pol))]


def _two_way(blk):
    return blk.term and blk.term.get('cond') is not None and len(blk.succ) == 2 \
        and blk.term.get('cls') not in ('SwitchStmt', 'MethodDispatch')


def cond_alts(blk):
    """[(succ index, [alternative atom lists])] of a conditional block: two-way branches, and `switch` (a case edge
    says `value == constant`, the default edge `value != every case constant`)"""
    if _two_way(blk):
        return [(si, dnf(blk.term['cond'], si == 0)) for si in (0, 1)]
    if blk.term and blk.term.get('cls') == 'SwitchStmt' and blk.term.get('cond') is not None \
            and len(blk.term.get('cases', [])) == len(blk.succ):
        c = blk.term['cond']
        cases = blk.term['cases']
        ints = [v for v in cases if isinstance(v, int) and not isinstance(v, bool)]
        out = []
        for si, cv in enumerate(cases):
            if isinstance(cv, int) and not isinstance(cv, bool):
                out.append((si, [[('==', canon(c), str(cv), c, {'k': 'int', 'v': cv})]]))
            elif cv == 'default':
                out.append((si, [[('!=', canon(c), str(v), c, {'k': 'int', 'v': v}) for v in ints]]))
            else:
                out.append((si, [[]]))
        return out
    return []


def cond_edges(blk):
    """[(succ index, atoms)] of a two-way conditional block: the atoms that hold whichever alternative made the
    condition come out this way."""
    out = []
    for (si, alts) in cond_alts(blk):
        if len(alts) == 1:
            out.append((si, alts[0]))
            continue
        common = [a for a in alts[0] if all(any(a[:3] == b[:3] for b in alt) for alt in alts[1:])]
        out.append((si, common))
    return out


def edge_all(blk, si, pred):
    """pred(atoms) holds for every alternative of edge si (False for an unconditional edge)"""
    for (i, alts) in cond_alts(blk):
        if i == si:
            return bool(alts) and all(pred(a) for a in alts)
    return False


def forward_from(fn, start_event, after, transfer, join, edge=None):
    """forward() started just after start_event (state `after`); points not reached from it are absent.
    The state *before* start_event itself is the state with which a loop comes back to it."""
    def tr(e, s):
        if e is start_event:
            return after
        if s is None:
            return None
        return transfer(e, s)
    def jn(a, b):
        if a is None:
            return b
        if b is None:
            return a
        return join(a, b)
    def ed(blk, si, s):
        if s is None or edge is None:
            return s
        return edge(blk, si, s)
    _, ev_in = forward(fn, None, tr, jn, edge=ed, start=start_event['_b'])
    return {k: v for k, v in ev_in.items() if v is not None}


def must(fn, pred, excuse=None, kill=None, start_event=None):
    """Forward must-analysis {(b, i): bool}: every path (from entry / from just after start_event) executed an event
    satisfying pred, or took an edge for which excuse(block, succ index, atoms) holds; kill(e) resets."""
    def tr(e, s):
        if kill and kill(e):
            return False
        return True if pred(e) else s
    def ed(blk, si, s):
        if s or excuse is None:
            return s
        if edge_all(blk, si, lambda atoms: excuse(blk, si, atoms)):
            return True
        return s
    if start_event is None:
        _, ev_in = forward(fn, False, tr, lambda a, b: a and b, edge=ed)
        return ev_in
    return forward_from(fn, start_event, False, tr, lambda a, b: a and b, edge=ed)


def exit_points(fn):
    """the exit block (every return of an inlined root flows into it)"""
    return [(fn.exit, 0)]


# --------------------------------------------------------------------------
# guard atoms: decisions taken on the path, with the locks they were taken under
# --------------------------------------------------------------------------

def opkey(x, fc=None):
    """Structural key of a condition operand: fields by (record, field), list emptiness by the list's (record, field);
    fc: field_caches() of the function (a local that only ever holds one field's value stands for the field)."""
    x0 = strip(x)
    if fc and isinstance(x0, dict) and x0.get('k') == 'var' and x0['name'] in fc:
        return fc[x0['name']]
    if not isinstance(x0, dict):
        return ('?',)
    k = x0.get('k')
    if k == 'int':
        return ('int', x0['v'])
    if k == 'null':
        return INT0
    if k == 'incdec' and x0.get('prefix'):
        return opkey(x0['e'], fc)               # the value of ++x / --x is the new value of x
    if k == 'bin' and x0.get('op') == '-':
        a, b = opkey(x0['l'], fc), opkey(x0['r'], fc)
        if a[0] == 'field' and b[0] == 'field':
            return ('diff', a, b)
    if k == 'member':
        return ('field',) + tuple(last_member(x0))
    if k == 'var':
        return ('var', x0['name'])
    if k == 'call':
        if x0.get('callee') == 'iv_list_empty' and x0.get('args'):
            a = strip(x0['args'][0])
            if isinstance(a, dict) and a.get('k') == 'addr' and last_member(a['e']):
                return ('empty',) + tuple(last_member(a['e']))
            return ('empty?', canon(x0['args'][0]))
        return ('call', x0.get('callee') or canon(x0.get('fnexpr')))
    return ('expr', canon(x0))


MAX_ALTS = 12


def guards(fn, assertions=True, unlock_kills=True):
    """{(b, i): frozenset of alternatives}; an alternative is a frozenset of atoms (op, lkey, rkey, locks, reads) that
    hold on the paths it stands for: branch decisions, `local = constant` and `local = <read/test>` definitions.
    Alternatives are kept apart at joins (up to MAX_ALTS, then intersected) and dropped on an edge that contradicts
    them, so that a decision survives being computed by a helper with several returns or being parked in a local:
    a fact holds at a point iff it holds in every alternative (g_* below).

    locks = locks held when the value was read.  An atom dies when something it reads may be written (type based;
    user callbacks write everything) and -- unlock_kills -- when a lock it was taken under is released (another thread
    may then change what was read).  assertions=False: the surviving edge of a fatal check (`if (c) iv_fatal()`) is
    not a decision of the program and yields nothing."""
    ls = locksets(fn)
    live = reaches_exit(fn)
    defs_of = {}
    for e in fn.events():
        if e['ev'] == 'store' and strip(e['lhs']).get('k') == 'var':
            defs_of.setdefault(strip(e['lhs'])['name'], []).append(e)

    def was_names(x):
        return {y['_was'] for y in walk(x) if '_was' in y}

    avail = arith_locals(fn)

    def locks_for(l, r, H0):
        # an operand that copy propagation spelled out was *read* where the caching local was defined:
        # the decision was taken under the locks held there as well as here
        H = H0
        for nm in was_names(l) | was_names(r):
            for d in defs_of.get(nm, ()):
                H = H & frozenset(held(ls.get((d['_b'], d['_i']))))
        return H

    def consistent(alt, at):
        (op, lk, rk) = at[:3]
        n = _num(rk)
        if n is None or op == 'def':
            return True
        for a in alt:
            if a[1] != lk or a[0] == 'def':
                continue
            m = _num(a[2])
            if m is None:
                continue
            if a[0] == '==' and not _sat(m, op, n):
                return False
            if op == '==' and not _sat(n, a[0], m):
                return False
        return True

    def edge(blk, si, S):
        alts = None
        for (i, a_) in cond_alts(blk):
            if i == si:
                alts = a_
        if alts is None:
            return S
        if not assertions and len(blk.succ) == 2:
            other = blk.succ[1 - si]
            if other is not None and other not in live:
                return S
        H0 = frozenset(held(ls.get((blk.id, len(blk.events)))))
        ex = avail.get((blk.id, len(blk.events))) if avail else None
        exprs = {v: json.loads(x) for (v, x, _) in ex} if ex else None
        out = set()
        for alt in S:
            for conj in alts:
                new, ok = set(), True
                for (op, lc, rc, l, r) in conj:
                    if op == 'const':
                        if lc == 'False':
                            ok = False
                        continue
                    (op2, lk, rk) = atom_keys(op, l, r, None, exprs)
                    reads = _mem_keys(l) | _mem_keys(r)
                    for (v, x, ks) in (ex or ()):
                        if ('var', v) in reads:
                            reads = reads | ks
                    cand = [(op2, lk, rk, locks_for(l, r, H0), frozenset(reads))]
                    # the tested local was defined as a read / test of something: the decision is about that
                    if lk[0] == 'var':
                        for a in alt:
                            if a[0] == 'def' and a[1] == lk:
                                cand.append((op2, a[2], rk, a[3], a[4]))
                    for c_ in cand:
                        if not consistent(alt, c_):
                            ok = False
                        new.add(c_)
                if ok:
                    out.add(frozenset(alt | new))
        if not out:
            return None
        return collapse(frozenset(out))

    def collapse(S):
        if len(S) <= MAX_ALTS:
            return S
        it = iter(S)
        acc = set(next(it))
        for x in it:
            acc &= x
        return frozenset({frozenset(acc)})

    def kill(S, pred):
        return frozenset(frozenset(a for a in alt if not pred(a)) for alt in S)

    def transfer(e, S):
        ev = e['ev']
        if ev == 'store':
            l = strip(e['lhs'])
            kills = set(lvalue_steps(e['lhs']))
            if l.get('k') == 'var':
                kills.add(('var', l['name']))
            if l.get('k') in ('deref', 'index'):
                kills.add(('mem', '*'))
            if not kills:
                lm = last_member(e['lhs'])
                if lm:
                    kills.add(lm)
            S = kill(S, lambda a: bool(a[4] & kills))
            if l.get('k') == 'var' and l.get('vk') == 'local' and e.get('op') == '=' and 'rhs' in e:
                H = frozenset(held(ls.get((e['_b'], e['_i']))))
                vk = ('var', l['name'])
                rk = opkey(e['rhs'])
                add = None
                if rk[0] == 'int':
                    add = ('==', vk, rk, H, frozenset({vk}))
                elif rk[0] in ('field', 'empty', 'diff'):
                    add = ('def', vk, rk, locks_for(e['rhs'], None, H), frozenset(_mem_keys(e['rhs']) | {vk}))
                if add:
                    S = frozenset(alt | {add} for alt in S)
            return S
        if ev == 'decl' and 'init' in e:
            return kill(S, lambda a: ('var', e['name']) in a[4])
        if ev == 'call':
            if 'fnexpr' in e:
                return kill(S, lambda a: not all(k[0] == 'var' for k in a[4]))
            if unlock_kills:
                for (op, lid) in lock_effect(e):
                    if op == 'unlock':
                        S = kill(S, lambda a, lid=lid: lid in a[3])
            ks = set()
            for a_ in e.get('args', []):
                a_ = strip(a_)
                if isinstance(a_, dict) and a_.get('k') == 'addr':
                    v = strip(a_['e'])
                    if isinstance(v, dict) and v.get('k') == 'var':
                        ks.add(('var', v['name']))
            if ks:
                S = kill(S, lambda a: bool(a[4] & ks))
            # list primitives change the emptiness of the lists they are given
            if e.get('callee') in ('iv_list_add', 'iv_list_add_tail', 'iv_list_del', 'iv_list_del_init', 'INIT_IV_LIST_HEAD',
                                   'iv_list_splice', 'iv_list_splice_init', 'iv_list_splice_tail', 'iv_list_splice_tail_init',
                                   '__iv_list_steal_elements', '__iv_list_splice'):
                lk = {lm_arg(e, i) for i in range(len(e.get('args', [])))} - {None}
                if lk:
                    S = kill(S, lambda a: bool(a[4] & lk))
        return S

    def join(a, b):
        return collapse(a | b)

    _, ev_in = forward(fn, frozenset({frozenset()}), transfer, join, edge=edge)
    return ev_in


def _alts(S):
    """alternatives of a guards() state; a plain atom collection counts as one alternative"""
    if S is None:
        return []
    S = list(S)
    if S and all(isinstance(x, frozenset) for x in S):
        return S
    return [S]


def _num(k):
    return k[1] if isinstance(k, tuple) and k and k[0] == 'int' else None


def atom_keys(op, l, r, fc=None, exprs=None):
    """(op, lkey, rkey) of a norm_cond atom, normalised: `x-- == n` speaks about the new value (x == n - 1),
    `a - b == 0` is `a == b`; exprs: {local: expression} of arithmetic locals that are still valid here."""
    def sub(x):
        x0 = strip(x)
        if exprs and isinstance(x0, dict) and x0.get('k') == 'var' and x0['name'] in exprs:
            return exprs[x0['name']]
        return x
    l, r = sub(l), sub(r)
    l0 = strip(l)
    lk, rk = opkey(l, fc), opkey(r, fc)
    if isinstance(l0, dict) and l0.get('k') == 'incdec' and not l0.get('prefix') and _num(rk) is not None:
        lk = opkey(l0['e'], fc)
        rk = ('int', _num(rk) + (1 if l0['op'] == '++' else -1))
    if lk[0] == 'diff' and rk == INT0 and op in ('==', '!='):
        lk, rk = lk[1], lk[2]
    return (op, lk, rk)


def g_equal(S, k1, k2, lock=None):
    def one(A):
        for a in A:
            if a[0] == '==' and {a[1], a[2]} == {k1, k2} and (lock is None or lock in a[3]):
                return True
        return False
    al = _alts(S)
    return bool(al) and all(one(A) for A in al)


def g_zero(A, k, lock=None):
    return g_equal(A, k, INT0, lock)


def g_nonzero(S, k, lock=None):
    def one(A):
        for a in A:
            if a[0] == 'def' or a[1] != k or (lock is not None and lock not in a[3]):
                continue
            n = _num(a[2])
            if n is None:
                continue
            if (a[0] == '!=' and n == 0) or (a[0] == '>' and n >= 0) or (a[0] == '>=' and n > 0) or (a[0] == '==' and n != 0) \
                    or (a[0] == '<' and n <= 0) or (a[0] == '<=' and n < 0):
                return True
        return False
    al = _alts(S)
    return bool(al) and all(one(A) for A in al)


def atoms_nonzero(atoms, k, fc=None):
    """same test on the raw atoms of one edge"""
    A = [atom_keys(op, l, r, fc) + (frozenset(), frozenset()) for (op, lc, rc, l, r) in atoms if op != 'const']
    return g_nonzero(A, k)


def atoms_zero(atoms, k, fc=None):
    A = [atom_keys(op, l, r, fc) + (frozenset(), frozenset()) for (op, lc, rc, l, r) in atoms if op != 'const']
    return g_zero(A, k)


def arith_locals(fn):
    """{(b, i): frozenset((local, json of its defining expression, keys read))}: locals holding `field - field` whose
    definition is still valid at the point (nothing it read was written since, no callback ran, no lock was dropped):
    `pending = pool->seq_tail - pool->seq_head; if (!pending)` is a test of the fields."""
    c = getattr(fn, '_h13_arith', None)
    if c is not None:
        return c
    cands = {}
    for e in fn.events():
        if e['ev'] == 'store' and e.get('op') == '=' and 'rhs' in e:
            l = strip(e['lhs'])
            if isinstance(l, dict) and l.get('k') == 'var' and l.get('vk') == 'local' and opkey(e['rhs'])[0] == 'diff':
                cands[id(e)] = (l['name'], json.dumps(e['rhs'], sort_keys=True, default=str), frozenset(_mem_keys(e['rhs'])))
    if not cands:
        fn._h13_arith = {}
        return {}
    def tr(e, S):
        if e['ev'] == 'store':
            l = strip(e['lhs'])
            kills = set(lvalue_steps(e['lhs']))
            if isinstance(l, dict) and l.get('k') == 'var':
                kills.add(('var', l['name']))
                S = frozenset(x for x in S if x[0] != l['name'])
            if isinstance(l, dict) and l.get('k') in ('deref', 'index'):
                kills.add(('mem', '*'))
            S = frozenset(x for x in S if not (x[2] & kills))
            if id(e) in cands:
                S = S | {cands[id(e)]}
            return S
        if e['ev'] == 'call':
            if 'fnexpr' in e or e.get('callee') not in PURE_CALLS or any(op == 'unlock' for (op, _) in lock_effect(e)):
                return frozenset()
        return S
    _, ev_in = forward(fn, frozenset(), tr, lambda a, b: a & b)
    fn._h13_arith = ev_in
    return ev_in


def called_field(fn, e):
    """(record, field) of the function-pointer field an indirect call goes through, also when the pointer was first
    loaded into a local"""
    if e['ev'] != 'call' or 'fnexpr' not in e:
        return None
    lm = last_member(e['fnexpr'])
    if lm:
        return lm
    v = strip(e['fnexpr'])
    if isinstance(v, dict) and v.get('k') == 'var':
        k = field_caches(fn).get(v['name'])
        if k:
            return (k[1], k[2])
    return None


# --------------------------------------------------------------------------
# results of calls that report failure by a non-zero value
# --------------------------------------------------------------------------

def result_vars(fn, callees):
    """locals that hold the result of a call to one of `callees` (directly or through copies)"""
    rv = set()
    copies = []
    for e in fn.events():
        if e['ev'] == 'store' and e.get('op') == '=' and 'rhs' in e:
            l, r = strip(e['lhs']), strip(e['rhs'])
            if not (isinstance(l, dict) and l.get('k') == 'var' and isinstance(r, dict)):
                continue
            if r.get('k') == 'call' and r.get('callee') in callees:
                rv.add(l['name'])
            elif r.get('k') == 'var':
                copies.append((l['name'], r['name']))
    ch = True
    while ch:
        ch = False
        for (a, b) in copies:
            if b in rv and a not in rv:
                rv.add(a)
                ch = True
    return rv


def return_values(prog, callee):
    """set of integer constants a repository function returns, or None when it returns something else too"""
    c = _cache(prog)
    key = ('retvals', callee)
    if key in c:
        return c[key]
    out = None
    f = prog.funcs.get(callee)
    if f is not None and f.blocks and not f.static:
        vals = set()
        for e in f.events():
            if e['ev'] == 'ret' and 'value' in e:
                v = strip(e['value'])
                if isinstance(v, dict) and v.get('k') == 'un' and v.get('op') == '-' and is_int(v.get('e')):
                    vals.add(-strip(v['e'])['v'])
                elif is_int(v):
                    vals.add(v['v'])
                else:
                    vals = None
                    break
        out = frozenset(vals) if vals else None
    c[key] = out
    return out


def _sat(v, op, n):
    return {'==': v == n, '!=': v != n, '<': v < n, '>': v > n, '<=': v <= n, '>=': v >= n}[op]


def result_edge(atoms, callees, rv, prog=None):
    """'ok' | 'failed' | None: what the atoms of an edge say about the result of a call to `callees`
    (0 = success, anything else = failure; the library's convention for init/create functions).  When the callee is a
    repository function that returns only constants, the decision is made over exactly those values."""
    for (op, lc, rc, l, r) in atoms:
        if op == 'const':
            continue
        l0 = strip(l)
        if not isinstance(l0, dict):
            continue
        isres = (l0.get('k') == 'call' and l0.get('callee') in callees) or (l0.get('k') == 'var' and l0['name'] in rv)
        if not isres:
            continue
        n = _num(opkey(r))
        if n is None:
            continue
        if not _sat(0, op, n):
            return 'failed'
        vals = None
        if prog is not None:
            vs = [return_values(prog, c_) for c_ in callees]
            if vs and all(v is not None for v in vs):
                vals = frozenset().union(*vs)
        if vals is not None:
            if all(v == 0 for v in vals if _sat(v, op, n)):
                return 'ok'
        elif op == '==' and n == 0:
            return 'ok'
    return None


# --------------------------------------------------------------------------
# single-definition pointer locals (`idle = &pool->idle_threads`)
# --------------------------------------------------------------------------

def ptr_aliases(fn):
    c = getattr(fn, '_h13_al', None)
    if c is not None:
        return c
    c = _ptr_aliases(fn)
    fn._h13_al = c
    return c


def field_caches(fn):
    """{local: ('field', record, field)} for locals every definition of which loads that one field
    (`stop = pool->thread_stop`): a test of / a call through the local is a test of / a call through the field value."""
    c = getattr(fn, '_h13_fc', None)
    if c is not None:
        return c
    defs, bad = {}, set()
    for e in fn.events():
        for x in walk(e):
            if x.get('k') == 'addr':
                v = strip(x['e'])
                if isinstance(v, dict) and v.get('k') == 'var':
                    bad.add(v['name'])
        if e['ev'] == 'store':
            l = strip(e['lhs'])
            if isinstance(l, dict) and l.get('k') == 'var' and l.get('vk') == 'local':
                r = strip(e['rhs']) if (e.get('op') == '=' and 'rhs' in e) else None
                lm = last_member(r) if isinstance(r, dict) and r.get('k') == 'member' else None
                if lm is None:
                    bad.add(l['name'])
                else:
                    defs.setdefault(l['name'], set()).add(('field',) + tuple(lm))
    c = {n: next(iter(ks)) for n, ks in defs.items() if n not in bad and len(ks) == 1}
    fn._h13_fc = c
    return c


def _ptr_aliases(fn):
    defs = {}
    addr = set()
    for e in fn.events():
        for x in walk(e):
            if x.get('k') == 'addr':
                v = strip(x['e'])
                if isinstance(v, dict) and v.get('k') == 'var':
                    addr.add(v['name'])
        if e['ev'] == 'store':
            l = strip(e['lhs'])
            if isinstance(l, dict) and l.get('k') == 'var' and l.get('vk') == 'local':
                defs.setdefault(l['name'], []).append(e)
    out = {}
    for n, ds in defs.items():
        if n in addr or len({d.get('loc') for d in ds}) != 1:
            continue
        d = ds[0]
        if d.get('op') != '=' or 'rhs' not in d:
            continue
        r = strip(d['rhs'])
        if isinstance(r, dict) and r.get('k') in ('addr', 'var') and not any(y.get('k') == 'call' for y in walk(r)):
            if not any(y.get('k') == 'var' and y.get('name') == n for y in walk(r)):
                out[n] = r
    return out


def resolve(x, al, depth=4):
    """x with single-definition pointer locals replaced by what they were assigned"""
    x = strip(x)
    while depth > 0 and isinstance(x, dict) and x.get('k') == 'var' and x['name'] in al:
        x = strip(al[x['name']])
        depth -= 1
    return x


def head_of(x, al):
    """(record, field) of the list head an expression denotes: `&P->f`, or a local that was assigned that."""
    x = resolve(x, al)
    if isinstance(x, dict) and x.get('k') == 'addr':
        return last_member(x['e'])
    return None


def container_base(x):
    """(record, pointer expression) when x computes the object that contains the list head / member a pointer points
    to: `container_of(p, T, m)` (iv_container_of, iv_list_entry) or its open-coded form `(T *)((char *)p - offset)`."""
    y = x
    while isinstance(y, dict) and y.get('k') in ('load', 'stmtexpr') and 'e' in y:
        y = y['e']
    if isinstance(y, dict) and y.get('k') == 'container_of':
        return (y.get('record'), y['e'])
    rec = None
    while isinstance(y, dict) and y.get('k') == 'cast' and 'e' in y:
        rec = y.get('record') or rec
        y = y['e']
        while isinstance(y, dict) and y.get('k') in ('load', 'stmtexpr') and 'e' in y:
            y = y['e']
    if isinstance(y, dict) and y.get('k') == 'container_of':
        return (y.get('record'), y['e'])
    if rec and isinstance(y, dict) and y.get('k') == 'bin' and y.get('op') == '-' and is_int(y.get('r')):
        return (rec, y['l'])
    return None


def mentions_record(x, record):
    for y in walk(x):
        if y.get('k') == 'member' and y.get('record') == record:
            return True
        if y.get('k') == 'var' and y.get('record') == record:
            return True
    return False


def is_effect(e):
    """an event that can change memory other than locals of the function"""
    if e['ev'] == 'store':
        l = strip(e['lhs'])
        return not (isinstance(l, dict) and l.get('k') == 'var' and l.get('vk') in ('local', 'param'))
    if e['ev'] == 'call':
        return e.get('callee') not in PURE_CALLS
    return False


# --------------------------------------------------------------------------
# registration worlds of the embedded objects of a record
# --------------------------------------------------------------------------

LIST_ON = ('iv_list_add', 'iv_list_add_tail')
LIST_OFF = ('iv_list_del', 'iv_list_del_init', 'INIT_IV_LIST_HEAD')
ALLOC = ('malloc', 'calloc')
HANDOFF = ('iv_thread_create', 'pthr_create')


class Worlds:
    """Disjunctive forward analysis of what is registered in objects of one record type inside one context.

    A world assigns every embedded field that is ever registered one of 0 (not registered), 1 (registered),
    2 (not registered by this thread, but the object was handed to a new thread that may register it), plus
    'onlist' for the list linkage a timer is paired with and 'shared' (other code can reach the object).
    Objects are identified by their record type (one object of a kind per context)."""

    def __init__(self, prog, fn, record, fields, embedded, paired=None, entry='live', own_timers=()):
        self.fn, self.record, self.fields = fn, record, list(fields)
        self.idx = {f: i for i, f in enumerate(self.fields)}
        self.kind = {f: t for (f, t) in fields_types(prog, record) if f in self.idx}
        self.emb = embedded
        self.paired = paired           # (timer field, list field) or None
        n = len(self.fields)
        self.LIST, self.SHARED = n, n + 1
        if entry == 'fresh':
            init = {tuple([0] * n + [0, 0])}
        else:
            base = [1] * n
            for f in own_timers:
                if f in self.idx:
                    base[self.idx[f]] = 0
            if paired and paired[0] in self.idx:
                ti = self.idx[paired[0]]
                if paired[0] in own_timers:
                    init = {tuple(base + [1, 1])}          # the timer fired: it is no longer registered, the object is still linked
                else:
                    init = set()
                    for v in (0, 1):
                        b = list(base)
                        b[ti] = v
                        init.add(tuple(b + [v, 1]))
            else:
                init = {tuple(base + [0, 1])}
        self.regs = {}
        for f in self.fields:
            reg, unreg = embedded[self.kind[f]]
            self.regs[f] = (reg, unreg)
        self.rv = {f: result_vars(fn, (self.regs[f][0],)) for f in self.fields}
        self.hv = result_vars(fn, HANDOFF)
        _, self.ev_in = forward(fn, frozenset(init), self.transfer, lambda a, b: a | b, edge=self.edge)

    def _set(self, S, i, v, only=None):
        out = set()
        for w in S:
            if only is None or w[i] == only:
                w = w[:i] + (v,) + w[i + 1:]
            out.add(w)
        return frozenset(out)

    def _is_obj(self, a):
        a = strip(a)
        return isinstance(a, dict) and a.get('k') == 'var' and a.get('record') == self.record

    def transfer(self, e, S):
        ev = e['ev']
        if ev == 'store':
            l = strip(e['lhs'])
            r = strip(e['rhs']) if 'rhs' in e else None
            if self._is_obj(l) and isinstance(r, dict) and r.get('k') == 'call' and r.get('callee') in ALLOC:
                return frozenset({tuple([0] * (len(self.fields) + 2))})
            if self._is_obj(r) and isinstance(l, dict) and l.get('k') != 'var':
                # the pointer is stored somewhere: published, unless it is stored into the object itself (`obj->ev.cookie = obj`)
                rt = root_var(e['lhs'])
                if not (rt is not None and rt.get('record') == self.record):
                    return self._set(S, self.SHARED, 1)
                return S
            if self.paired:
                st = lvalue_steps(e['lhs'])
                if len(st) == 2 and st[1] == (self.record, self.paired[1]) and st[0][0] == 'iv_list_head' and e.get('op') == '=':
                    return self._set(S, self.LIST, 0 if is_null(e.get('rhs')) else 1)
            return S
        if ev != 'call':
            return S
        c = e.get('callee')
        if c is None:
            return S
        for f in self.fields:
            reg, unreg = self.regs[f]
            if c in (reg, unreg) and lm_arg(e, 0) == (self.record, f):
                return self._set(S, self.idx[f], 1 if c == reg else 0)
        if self.paired and c in LIST_ON + LIST_OFF and lm_arg(e, 0) == (self.record, self.paired[1]):
            return self._set(S, self.LIST, 1 if c in LIST_ON else 0)
        if c in HANDOFF and any(self._is_obj(a) for a in e.get('args', [])):
            for i in range(len(self.fields)):
                S = self._set(S, i, 2, only=0)
            return self._set(S, self.SHARED, 1)
        if c == 'free' and e.get('args') and self._is_obj(e['args'][0]):
            return frozenset({tuple([0] * (len(self.fields) + 2))})
        return S

    def edge(self, blk, si, S):
        for (i, atoms) in cond_edges(blk):
            if i != si:
                continue
            for f in self.fields:
                reg = self.regs[f][0]
                # the registration reported failure
                for at in atoms:
                    l0 = strip(at[3])
                    direct = isinstance(l0, dict) and l0.get('k') == 'call' and l0.get('callee') == reg and \
                        l0.get('args') and _addr_member(l0['args'][0]) == (self.record, f)
                    if (direct or (isinstance(l0, dict) and l0.get('k') == 'var' and l0['name'] in self.rv[f])) \
                            and result_edge([at], (reg,), self.rv[f]) == 'failed':
                        S = self._set(S, self.idx[f], 0)
            if result_edge(atoms, HANDOFF, self.hv) == 'failed':
                for j in range(len(self.fields)):
                    S = self._set(S, j, 0, only=2)
            if self.paired:
                for at in atoms:
                    if at[0] == 'const':
                        continue
                    k = opkey(at[3])
                    if k == ('empty', self.record, self.paired[1]) and _num(opkey(at[4])) == 0:
                        want = 0 if at[0] == '!=' else 1 if at[0] == '==' else None
                        if want is not None:
                            S = frozenset(w for w in S if w[self.LIST] == want)
        return S

    def at(self, e):
        return self.ev_in.get((e['_b'], e['_i']))

    def at_exit(self):
        return self.ev_in.get((self.fn.exit, 0))


def _addr_member(a):
    a = strip(a)
    if isinstance(a, dict) and a.get('k') == 'addr':
        return last_member(a['e'])
    return None


def fields_types(prog, record):
    """[(field, embedded object kind)] of a record's fields that are library objects or mutexes"""
    r = prog.records.get(record)
    if not r or 'fields' not in r:
        return []
    out = []
    for fl in r['fields']:
        t = fl.get('record') or ('pthread_mutex_t' if 'mutex' in fl['type'] else None)
        if t is None:
            continue
        if 'mutex' in str(fl['type']) or t == 'pthread_mutex_t':
            t = 'pthread_mutex_t'
        out.append((fl['name'], t))
    return out
