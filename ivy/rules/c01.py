"""C01 — no callback and no memory access after an unregister call returns.

Decided statically: the four disciplines that make the guarantee hold in this
code base (stale-after-callback, unlink-before-call for one-shot objects,
unregister reaches every holder, no callback while a kernel batch is live).
Not decided: sufficiency over all histories and kernel behaviours.

Formulation (see REPORT-C01.md): callback sites are judged in the library's
roots (exported functions, installed handlers, method slots) with helpers
inlined, and aggregated per source location; objects, list nodes and arrays are
identified by type ((record, field)) and by the definitions of the locals that
name them, never by the spelling of an expression or the name of a static helper.
"""
from ..core import (lvalue_root, AnalysisBroken, canon, strip, last_member, relpath, norm_cond, walk, forward, lvalue_steps)
from ..analyses import (is_call, path_to, describe, exits_of, callback_kind, stale_after_callback, USER_OBJECT_RECORDS,
                        must_pass_from_block)
from . import h01
from .h01 import norm_rec

ONE_SHOT = {  # callback kind -> (record, link field, extra store required before the call)
    'task': ('iv_task_', 'list', None),
    'timer': ('iv_timer_', 'list_expired', ('iv_timer_', 'index', '-1')),
    'event': ('iv_event', 'list', None),
}

UNREGISTER = {
    'iv_fd_': 'iv_fd_unregister', 'iv_task_': 'iv_task_unregister', 'iv_timer_': 'iv_timer_unregister',
    'iv_event': 'iv_event_unregister', 'iv_event_raw': 'iv_event_raw_unregister', 'iv_signal': 'iv_signal_unregister',
    'iv_wait_interest': 'iv_wait_interest_unregister', 'iv_inotify': 'iv_inotify_unregister',
    'iv_inotify_watch': 'iv_inotify_watch_unregister', 'iv_fd': 'iv_fd_unregister',
}

# holder signature -> how the kind's unregister must undo it (confirmed by reading)
HOLDERS = {
    ('list', 'iv_fd_', 'list_active'): dict(check='unlinked'),
    ('list', 'iv_fd_', 'list_notify'): dict(check='unlinked', methods='deferring'),
    ('list', 'iv_task_', 'list'): dict(check='unlinked'),
    ('list', 'iv_event', 'list'): dict(check='unlinked', lock='iv_state.event_list_mutex'),
    ('list', 'iv_timer_', 'list_expired'): dict(check='unlinked', when=(('iv_timer_', 'index'), '==', 0),
                                                why='a timer is in the expired batch iff index == 0'),
    ('list', 'iv_wait_interest', 'events_pending'): dict(check='unlinked', why='queued status records are purged'),
    ('list', 'iv_work_item', 'list'): dict(check='exempt', why='work items have no unregister call; they stay owned by the '
                                                              'library from submit until their completion is entered (C12)'),
    ('tree', 'iv_inotify_watch', 'an'): dict(check='tree'),
    ('tree', 'iv_signal', 'an'): dict(check='tree'),
    ('tree', 'iv_wait_interest', 'avl_node'): dict(check='tree', unless=('iv_wait_interest', 'flags'),
                                                   why='already removed by the reaper when the dead flag is set (C11)'),
    ('marker', 'iv_fd_', 'iv_state.handled_fd'): dict(check='marker'),
    ('marker', 'iv_wait_interest', 'iv_wait_thr_info.handled_wait_interest'): dict(check='marker'),
    ('slot', 'iv_fd_', 'poll.fds[]'): dict(check='poll-slot', methods='poll', free=-1),
    ('slot', 'iv_timer_', 'heap'): dict(check='heap-slot', index=('iv_timer_', 'index'), free=-1, batch=0),
    ('kernel', 'iv_fd_', 'epoll_event.data.ptr'): dict(check='epoll-sync', methods='deferring'),
    ('pub', 'iv_inotify', 'term'): dict(check='exempt', why='address of the dispatcher\'s local instance pointer; unregister '
                                                           'nulls through it (checked by C20 R-C20c and C18 R-C18f)'),
    ('cookie', 'iv_event_raw', 'event_rfd'): dict(check='sub', sub='iv_fd_unregister'),
    ('cookie', 'iv_inotify', 'fd'): dict(check='sub', sub='iv_fd_unregister'),
    ('cookie', 'iv_signal', 'ev'): dict(check='sub', sub='iv_event_raw_unregister'),
    ('cookie', 'iv_wait_interest', 'ev'): dict(check='sub', sub='iv_event_unregister'),
    ('parent', 'iv_popen_request', 'iv_popen_running_child.parent'): dict(check='exempt', why='popen close detaches the record (C19 R-C19d)'),
}

# what an array/heap slot holding a pointer to an object of that kind is called in HOLDERS
SLOT_NAME = {'iv_fd_': 'poll.fds[]', 'iv_timer_': 'heap'}
FD_SLOT = ('slot', 'iv_fd_', 'poll.fds[]')

N_CALLBACK_FIELDS = 12      # fd in/out/err, task, timer, event, raw event, signal, wait, inotify watch, work, completion

WAIT_PRIMITIVES = {'epoll_wait': 1, 'epoll_pwait2': 1, 'epoll_pwait': 1, 'poll': 0, 'ppoll': 0}   # name -> index of the array argument


def is_cb(e):
    k = callback_kind(e)
    return k[1] if k and k[0] == 'callback' else None


def objrec(x):
    """kind of user object the pointer value x designates (a pointer variable, or the
    iv_container_of / iv_list_entry expression that yields the object), public twins normalised"""
    x = strip(x)
    if isinstance(x, dict) and x.get('k') == 'var' and x.get('ptr') and x.get('record') in USER_OBJECT_RECORDS:
        return norm_rec(x['record'])
    if isinstance(x, dict) and x.get('k') == 'container_of' and x.get('record') in USER_OBJECT_RECORDS:
        return norm_rec(x['record'])
    return None


def discover_holders(prog):
    c = getattr(prog, '_c01_holders', None)
    if c is not None:
        return c
    found = {}
    for f in sorted(prog.all_funcs(), key=lambda f: f.q):
        for e in f.events():
            o = h01.list_op_member(f, e)
            if o is not None and o[0] == 'add' and o[1] and o[1][0] in USER_OBJECT_RECORDS:
                found.setdefault(('list', o[1][0], o[1][1]), []).append((f, e))
            if e['ev'] == 'call' and e.get('callee') in ('iv_avl_tree_insert', '__iv_list_steal_elements'):
                ai = 1 if e['callee'] == 'iv_avl_tree_insert' else 0
                lm = h01.arg_member(f, e, ai)
                if lm and lm[0] in USER_OBJECT_RECORDS:
                    kind = 'tree' if e['callee'] == 'iv_avl_tree_insert' else 'list'
                    found.setdefault((kind, lm[0], lm[1]), []).append((f, e))
            if e['ev'] == 'store' and e.get('op') == '=' and 'rhs' in e:
                l = strip(e['lhs'])
                if l.get('k') == 'var':
                    if l.get('vk') in ('global', 'staticlocal') and objrec(e['rhs']):
                        found.setdefault(('store', objrec(e['rhs']), l['name']), []).append((f, e))
                    continue
                rec = objrec(e['rhs'])
                if rec:
                    steps = lvalue_steps(e['lhs'])
                    lm = last_member(e['lhs'])
                    if lm and lm[1] == 'cookie':
                        # X->SUB.cookie = X : the embedded sub-object points back at its container
                        b = strip(l['base']) if l.get('k') == 'member' else None
                        sub = None
                        if isinstance(b, dict) and b.get('k') == 'member':
                            sub = b['field']
                        elif isinstance(b, dict) and l.get('arrow'):
                            lm2 = h01.member_of_ptr(f, b)     # sub = &X->SUB; sub->cookie = X
                            if lm2 and norm_rec(lm2[0]) == rec:
                                sub = lm2[1]
                        if sub is not None:
                            found.setdefault(('cookie', rec, sub), []).append((f, e))
                            continue
                    if lm == ('epoll_data', 'ptr') or ('epoll_event', 'data') in steps:
                        found.setdefault(('kernel', rec, 'epoll_event.data.ptr'), []).append((f, e))
                    elif l.get('k') in ('index', 'deref'):
                        # an element of a dynamically allocated array / heap: whatever the spelling (a[i], *(a + i), *p)
                        found.setdefault(('slot', rec, SLOT_NAME.get(rec, 'array')), []).append((f, e))
                    elif lm and lm[1] == 'parent':
                        found.setdefault(('parent', rec, '%s.%s' % lm), []).append((f, e))
                    elif lm and lm[0] in ('iv_state', 'iv_wait_thr_info'):
                        found.setdefault(('marker', rec, '%s.%s' % lm), []).append((f, e))
                    elif steps and lvalue_root_is_local(e['lhs']):
                        continue
                    else:
                        found.setdefault(('store', rec, canon(e['lhs'])), []).append((f, e))
                rr = strip(e['rhs'])
                if isinstance(rr, dict) and rr.get('k') == 'addr':
                    v = strip(rr['e'])
                    if isinstance(v, dict) and v.get('k') == 'var' and v.get('record') in USER_OBJECT_RECORDS and v.get('ptr'):
                        lm = last_member(e['lhs'])
                        found.setdefault(('pub', v['record'], lm[1] if lm else canon(e['lhs'])), []).append((f, e))
    prog._c01_holders = found
    return found


def lvalue_root_is_local(lhs):
    r = lvalue_root(lhs)
    return r is not None and r.get('vk') in ('local', 'param')


def _list_arg_member(e, i=0):
    a = strip(e['args'][i]) if len(e.get('args', [])) > i else None
    if isinstance(a, dict) and a.get('k') == 'addr':
        return last_member(a['e'])
    return None


def _empty_edge(g, blk, si, key):
    """'empty' / 'nonempty' when the edge decides iv_list_empty() of the list node `key`, else None"""
    if blk.term and blk.term.get('cond') is not None and len(blk.succ) == 2:
        for (op, lc, rc, l, r) in norm_cond(blk.term['cond'], si == 0):
            c = strip(l)
            if isinstance(c, dict) and c.get('k') == 'call' and c.get('callee') == 'iv_list_empty' and rc == '0' and op in ('==', '!=') \
                    and c.get('args') and h01.member_of_ptr(g, c['args'][0]) == key:
                return 'empty' if op == '!=' else 'nonempty'
    return None


def _link_transfer(g, key):
    """link state of the node `key` (typed: any object of the record): L linked, N not linked, U unknown.
    (Re)initialising a node does not take it off a list: only iv_list_del* does."""
    def tr(e, S):
        o = h01.list_op_member(g, e)
        if o == ('add', key):
            return frozenset('L')
        if o == ('del', key):
            return frozenset('N')
        return S
    return tr


def link_states(g, rec, field, cut=frozenset()):
    """May-set of link states {'U','L','N'} of rec.field before every event."""
    key = (rec, field)
    def edge(blk, si, S):
        if (blk.id, si) in cut:
            return None
        t = _empty_edge(g, blk, si, key)
        if t is not None:
            return frozenset('N') if t == 'empty' else frozenset('L')
        return S
    _, ev_in = forward(g, frozenset('U'), _link_transfer(g, key), lambda a, b: a | b, edge=edge)
    return ev_in


def exit_points(g):
    pts = [(pb, pi) for (pb, pi, _) in exits_of(g)]
    pts.append((g.exit, 0))
    return pts


def deferring_tables(prog):
    """poll methods whose notify_fd slot queues the descriptor (with helpers inlined) instead of telling the kernel at once"""
    out = []
    for t, slots in sorted(prog.method_tables().items()):
        v = slots.get('notify_fd')
        f = prog.resolve(*v) if v else None
        if f is None:
            continue
        g = h01.inlined(prog, f)
        if any(h01.list_op_member(g, e) == ('add', ('iv_fd_', 'list_notify')) for e in g.events()):
            out.append(t)
    return out


def slot_array_tables(prog, found):
    """poll methods whose notify_fd slot stores the descriptor into an array slot"""
    locs = {e['loc'] for (_, e) in found.get(FD_SLOT, [])}
    out = []
    for t, slots in sorted(prog.method_tables().items()):
        v = slots.get('notify_fd')
        f = prog.resolve(*v) if v else None
        if f is not None and any(e['ev'] == 'store' and e['loc'] in locs for e in h01.inlined(prog, f).events()):
            out.append(t)
    return out


def _excludes(op, rc, val):
    """the atom (x op rc) cannot hold when x == val"""
    try:
        n = int(rc)
    except (TypeError, ValueError):
        return False
    tbl = {'==': val == n, '!=': val != n, '<': val < n, '>': val > n, '<=': val <= n, '>=': val >= n}
    return op in tbl and not tbl[op]


def edges_excluding(g, field, val, objs):
    """conditional edges on which record.field of the object held in one of the locals `objs` cannot be `val`"""
    out = set()
    for b, blk in g.blocks.items():
        if blk.term and blk.term.get('cond') is not None and len(blk.succ) == 2 and blk.term.get('cls') not in ('SwitchStmt', 'MethodDispatch'):
            for si in (0, 1):
                for (op, lc, rc_, l, r) in norm_cond(blk.term['cond'], si == 0):
                    if last_member(l) == field and (h01.base_var_names(l) & objs) and _excludes(op, rc_, val):
                        out.add((b, si))
    return out


def run(ctx):
    ctx.rule('R-C01a', 'stale-after-callback: after a user callback no pointer to a user-owned object is dereferenced '
                       'until it is reassigned or its liveness marker was re-tested (every root of the library, helpers inlined)', floor=20)
    ctx.rule('R-C01b', 'one-shot objects (task, timer, event) are unlinked from the batch (timers: index = -1) between the definition '
                       'of the object pointer and the call of their handler, in every calling context', floor=3)
    ctx.rule('R-C01c', 'every place the library keeps a pointer to a user object (lists, trees, markers, poll array, heap '
                       'slot, kernel registration, sub-object cookies) is discovered and undone by that kind\'s unregister on every path', floor=18)
    ctx.rule('R-C01d', 'no user callback runs between the kernel wait and the last read of the event array it filled', floor=4)
    ctx.section(stale)
    ctx.section(one_shot)
    ctx.section(holders)
    ctx.section(batch_live)


def stale(ctx):
    """Judged in every root of the library with its helpers inlined (a helper on its own lacks the marker
    store or re-test that lives in its caller); a function that no root reaches is judged by itself."""
    prog = ctx.prog
    fields = set()
    for (f, g) in h01.callback_contexts(prog):
        for e in g.events():
            if h01.cb_kind(g, e):
                m = h01.call_target(g, e)
                fields.add((m.get('record'), m['field']))
        reps, objvars, markers = stale_after_callback(g, lambda e, g=g: h01.cb_kind(g, e))
        byvar = {}
        for (e, v, acc, cb) in reps:
            byvar.setdefault(v, []).append((e, acc, cb))
        for v in sorted(objvars):
            bad = byvar.get(v, [])
            e0 = bad[0][0] if bad else None
            base = v.split('@')[0]
            ctx.ob('R-C01a', '%s:%s' % (f.name, v), not bad, loc=e0['loc'] if e0 else f.loc,
                   detail=('`%s` (%s) is used after the callback at %s without reassignment or marker test: %s'
                           % (base, objvars[v], relpath(bad[0][2]), ', '.join(sorted({a for _, a, _ in bad})))) if bad else
                          '%s *%s: never used after a callback site without reassignment / marker test' % (objvars[v], base),
                   path=path_to(g, e0) if e0 else None, fn=f.q)
    # what must not vanish is the set of handler fields user code is entered through, not the number of call
    # statements (a trampoline merges sites, an unrolled loop multiplies them)
    if len(fields) < N_CALLBACK_FIELDS:
        raise AnalysisBroken('user callbacks through only %d handler fields found (%d confirmed by reading): %s'
                             % (len(fields), N_CALLBACK_FIELDS, sorted(fields)))


def one_shot(ctx):
    """At the call of a one-shot object's handler the object has been unlinked (and stamped) since the
    (last) definition of the pointer the handler is called through.  Evaluated by a forward must-analysis
    of facts about locals (h01.oneshot_facts) in every root context that reaches the call, so that it is
    independent of the loop form, of helpers that dequeue / run one object, of pointer copies and of how
    the list node is spelled (&t->list, or the node pointer t was computed from)."""
    prog = ctx.prog
    stamps = {(x[0], x[1]): int(x[2]) for (_, _, x) in ONE_SHOT.values() if x}
    res = {}
    for (f, g) in h01.callback_contexts(prog):
        sites = [e for e in g.events() if h01.cb_kind(g, e) in ONE_SHOT]
        if not sites:
            continue
        facts = h01.oneshot_facts(g, stamps)
        for cs in sites:
            S = facts.get((cs['_b'], cs['_i']))
            if S is None:
                continue        # not reachable in this context
            kind = h01.cb_kind(g, cs)
            rec, link, extra = ONE_SHOT[kind]
            fe = h01.call_target(g, cs)
            objs = h01.var_names(fe['base'])
            if not objs:
                raise AnalysisBroken('%s: the object of %s is not held in a local' % (f.name, describe(cs)))
            ok = any(('unl', o, (rec, link)) in S for o in objs)
            ok2 = (not extra) or any(('st', o, (extra[0], extra[1])) in S for o in objs)
            r = res.setdefault((kind, cs['loc']), dict(ok=True, ok2=True, cs=cs, g=g, f=f, bad=None, bad2=None, obj=canon(fe['base']).split('@')[0]))
            if not ok and r['ok']:
                r.update(ok=False, bad=(g, cs, f))
            if not ok2 and r['ok2']:
                r.update(ok2=False, bad2=(g, cs, f))
    for (kind, loc), r in sorted(res.items()):
        rec, link, extra = ONE_SHOT[kind]
        cs = r['cs']
        owner = h01.owner_name(cs, r['f'].q)
        obj = r['obj']
        bg, bcs, bf = r['bad'] or (r['g'], cs, r['f'])
        ctx.ob('R-C01b', '%s:%s-unlinked-before-handler' % (owner, kind), r['ok'], loc=loc,
               detail='iv_list_del*() of the %s.%s node of %s lies between the definition of %s and %s on every path%s'
                      % (rec, link, obj, obj, describe(cs), '' if r['ok'] else ' [fails in the context of %s]' % bf.name),
               path=None if r['ok'] else path_to(bg, bcs), fn=bf.q)
        if extra:
            bg, bcs, bf = r['bad2'] or (r['g'], cs, r['f'])
            ctx.ob('R-C01b', '%s:%s-%s-stamped-before-handler' % (owner, kind, extra[1]), r['ok2'], loc=loc,
                   detail='%s->%s = %s precedes the handler call on every path from the definition of %s (the object reads as unregistered inside its handler)%s'
                          % (obj, extra[1], extra[2], obj, '' if r['ok2'] else ' [fails in the context of %s]' % bf.name),
                   path=None if r['ok2'] else path_to(bg, bcs), fn=bf.q)


# --------------------------------------------------------------------------
# R-C01c
# --------------------------------------------------------------------------

def _check_unlinked(g, un, rec, fld, spec):
    pts = exit_points(g)
    key = (rec, fld)
    if spec.get('when'):
        wf, wop, wv = spec['when']
        cut = edges_excluding(g, wf, wv, h01.object_vars(g, un, rec))
        if not cut:
            raise AnalysisBroken('%s: discriminating test of %s.%s not found' % (un.name, wf[0], wf[1]))
        ls = link_states(g, rec, fld, cut=cut)
        sts = set()
        for p in pts:
            sts |= set(ls.get(p, ()))
        ok = sts <= {'N'} and bool(sts)
        det = 'on the %s.%s == %s arm the object is unlinked at return (states %s): %s' % (wf[0], wf[1], wv, sorted(sts), spec.get('why', ''))
    else:
        ls = link_states(g, rec, fld)
        sts = set()
        for p in pts:
            sts |= set(ls.get(p, ()))
        ok = sts <= {'N'} and bool(sts)
        det = 'link state of %s.%s at every return of %s: %s (N = not linked)' % (rec, fld, un.name, sorted(sts))
    if ok and spec.get('lock'):
        lk = h01.locks_held(g)
        for e in g.events():
            if h01.list_op_member(g, e) == ('del', key):
                if spec['lock'] not in (lk.get((e['_b'], e['_i'])) or ()):
                    ok = False
                    det += '; unlinked without %s' % spec['lock']
    return ok, det


def _check_tree(g, un, rec, fld, spec):
    pts = exit_points(g)
    def tr(e, s):
        return True if (is_call(e, 'iv_avl_tree_delete') and h01.arg_member(g, e, 1) == (rec, fld)) else s
    def edge(blk, si, s):
        if spec.get('unless') and blk.term and blk.term.get('cond') is not None and len(blk.succ) == 2:
            for (op, lc, rc_, l, r) in norm_cond(blk.term['cond'], si == 0):
                if op == '!=' and rc_ == '0' and spec['unless'] in {(x.get('record'), x.get('field')) for x in walk(l) if x.get('k') == 'member'}:
                    return True
        return s
    _, ev_in = forward(g, False, tr, lambda a, b: a and b, edge=edge)
    ok = all(ev_in.get(p, True) for p in pts)
    return ok, 'iv_avl_tree_delete(&obj->%s) on every path%s' % (fld, (' except where ' + spec['why']) if spec.get('why') else '')


def _check_marker(g, un, rec, marker, spec):
    """Postcondition: at every return the marker does not designate the object being unregistered.
    M = may designate it, N = does not (NULL stored, or tested different / NULL)."""
    mrec, mfld = marker.split('.')
    mkey = (mrec, mfld)
    objs = h01.object_vars(g, un, rec)
    if not objs:
        raise AnalysisBroken('%s: no parameter of kind %s' % (un.name, rec))
    def is_obj(x):
        return isinstance(x, dict) and bool(h01.var_names(x) & objs)
    def refine(atoms, S):
        """marker state under branch atoms: tested NULL or tested different from the object -> N"""
        for (op, lc, rc_, l, r) in atoms:
            if op not in ('==', '!='):
                continue
            for (a, b) in ((l, r), (r, l)):
                if not isinstance(a, dict) or last_member(a) != mkey:
                    continue
                if isinstance(b, dict) and h01.const_of(b) == 0:
                    if op == '==':
                        S = frozenset('N')
                elif is_obj(b):
                    if op == '!=':
                        S = frozenset('N')
        return S
    def value(x, S):
        """marker state after storing x into it"""
        x = strip(x)
        if h01.const_of(x) == 0:
            return frozenset('N')
        if isinstance(x, dict) and x.get('k') == 'cond':     # marker = (marker == obj) ? NULL : marker
            return value(x['a'], refine(norm_cond(x['c'], True), S)) | value(x['b'], refine(norm_cond(x['c'], False), S))
        if isinstance(x, dict) and last_member(x) == mkey:
            return S                                          # the marker's own value
        return frozenset('M')
    def tr(e, S):
        if e['ev'] == 'store' and last_member(e['lhs']) == mkey:
            return value(e['rhs'], S) if e.get('op') == '=' and 'rhs' in e else frozenset('M')
        return S
    def edge(blk, si, S):
        if blk.term and blk.term.get('cond') is not None and len(blk.succ) == 2 and blk.term.get('cls') not in ('SwitchStmt', 'MethodDispatch'):
            S = refine(norm_cond(blk.term['cond'], si == 0), S)
        return S
    _, ev_in = forward(g, frozenset('M'), tr, lambda a, b: a | b, edge=edge)
    sts = set()
    for p in exit_points(g):
        sts |= set(ev_in.get(p, ()))
    ok = bool(sts) and sts <= {'N'}
    return ok, ('at every return of %s the marker %s cannot designate the object being unregistered (reset to NULL where it '
                'does): states %s (N = does not)' % (un.name, marker, sorted(sts)))


def _index_fixed(g, objs, idxkeys, free, with_edges):
    """at a point: the index field of the object holds `free` (stored, or tested equal) and nothing that may
    alias the object stored another value since"""
    def tr(e, s):
        if e['ev'] == 'store' and last_member(e['lhs']) in idxkeys:
            v = h01.const_of(e.get('rhs')) if e.get('op') == '=' else None
            if h01.base_var_names(e['lhs']) & objs:
                return v == free
            return s if v == free else False
        return s
    def edge(blk, si, s):
        if with_edges and blk.term and blk.term.get('cond') is not None and len(blk.succ) == 2:
            for (op, lc, rc_, l, r) in norm_cond(blk.term['cond'], si == 0):
                if op == '==' and rc_ == str(free) and last_member(l) in idxkeys and (h01.base_var_names(l) & objs):
                    return True
        return s
    _, ev_in = forward(g, False, tr, lambda a, b: a and b, edge=edge)
    return ev_in


def slot_index_keys(prog, found, sig, rec):
    """(record, field) of the scalar field(s) of the object from which the address of its array slot is computed
    (`arr[obj->idx] = obj`), whatever locals cache the index or the slot address"""
    keys = set()
    def fld_of_obj(y):
        """scalar field reached from a pointer variable of the object kind: (record, field)"""
        if y.get('k') == 'member' and not y.get('trecord'):
            x = y
            while isinstance(x, dict) and x.get('k') == 'member' and not x['arrow']:
                x = strip(x['base'])
            if isinstance(x, dict) and x.get('k') == 'member':
                b = strip(x['base'])
                if isinstance(b, dict) and b.get('k') == 'var' and norm_rec(b.get('record')) == rec:
                    return (y.get('record'), y['field'])
        return None
    for (f, e) in found.get(sig, []):
        l = strip(e['lhs'])
        addr = [l['base'], l['idx']] if l.get('k') == 'index' else [l['e']]
        seen = set()
        def pred(y):
            k = fld_of_obj(y)
            if k:
                keys.add(k)
            return False
        h01.depends_on(f, addr, pred, seen)
        seen |= {y['name'] for y in walk(addr) if h01.is_localvar(y)}
        # idx = n++; obj->index = idx; arr[idx] = obj : the local the slot is addressed by is what the object remembers
        for e2 in f.events():
            if e2['ev'] == 'store' and e2.get('op') == '=' and 'rhs' in e2 and (h01.var_names(e2['rhs']) & seen):
                k = fld_of_obj(strip(e2['lhs'])) if isinstance(strip(e2['lhs']), dict) else None
                if k:
                    keys.add(k)
    return keys


def _check_poll_slot(g, un, rec, spec, idxkeys):
    objs = h01.object_vars(g, un, rec)
    if not objs:
        raise AnalysisBroken('%s: no parameter of kind %s' % (un.name, rec))
    ev_in = _index_fixed(g, objs, idxkeys, spec['free'], True)
    ok = all(ev_in.get(p, True) for p in exit_points(g))
    return ok, 'at every return the descriptor has no slot in the poll arrays (%s == %d stored or tested)' % (
        '/'.join(sorted(k[1] for k in idxkeys)), spec['free'])


def _check_heap_slot(g, un, rec, spec):
    objs = h01.object_vars(g, un, rec)
    if not objs:
        raise AnalysisBroken('%s: no parameter of kind %s' % (un.name, rec))
    idx = spec['index']
    pts = exit_points(g)
    ev_in = _index_fixed(g, objs, {idx}, spec['free'], False)
    ok1 = all(ev_in.get(p, True) for p in pts)
    # on the arm where the timer is on the heap: every path overwrites a heap slot with something that is not the
    # timer, and the slot addressed through the timer's own index is among the slots overwritten
    def own_index(y):
        return y.get('k') == 'member' and (y.get('record'), y['field']) == idx and bool(h01.base_var_names(y) & objs)
    def slot_store(e):
        if e['ev'] != 'store' or e.get('op') != '=':
            return None
        l = strip(e['lhs'])
        if not isinstance(l, dict) or l.get('k') not in ('deref', 'index') or lvalue_steps(e['lhs']):
            return None
        if h01.var_names(e.get('rhs')) & objs:
            return None
        return [l['base'], l['idx']] if l['k'] == 'index' else [l['e']]
    own = {id(e) for e in g.events() if slot_store(e) is not None and h01.depends_on(g, slot_store(e), own_index)}
    arms = edges_excluding(g, idx, spec['batch'], objs)
    ok2, ok3, narm = True, True, 0
    for (b, si) in sorted(arms):
        mp = must_pass_from_block(g, g.blocks[b].succ[si], lambda e: slot_store(e) is not None)
        reach = [p for p in pts if p in mp]
        if reach:
            narm += 1
            if not all(mp[p] for p in reach):
                ok2 = False
            seen = g.reachable_blocks(g.blocks[b].succ[si])
            if not any(id(e) in own for bb in seen for e in g.blocks[bb].events):
                ok3 = False
    if not narm:
        raise AnalysisBroken('%s: arm for a timer that is on the heap (%s.%s != %d) not found' % (un.name, idx[0], idx[1], spec['batch']))
    return ok1 and ok2 and ok3, ('heap arm: a heap slot is overwritten on every path (%s), the slot addressed by the timer\'s own index is '
                                 'among them (%s); %s = %d at every return (%s)'
                                 % ('yes' if ok2 else 'NO', 'yes' if ok3 else 'NO', idx[1], spec['free'], 'yes' if ok1 else 'NO'))


def _check_epoll_sync(g, un, prog, t):
    key = ('iv_fd_', 'list_notify')
    pts = exit_points(g)
    def tr(e, S):
        if is_call(e, 'epoll_ctl'):
            return frozenset((True, l_) for (_, l_) in S)
        o = h01.list_op_member(g, e)
        if o == ('add', key):
            return frozenset((s_, 'L') for (s_, _) in S)
        if o == ('del', key):
            return frozenset((s_, 'N') for (s_, _) in S)
        return S
    def edge(blk, si, S):
        if blk.term and blk.term.get('cond') is not None and len(blk.succ) == 2:
            for (op, lc, rc_, l, r) in norm_cond(blk.term['cond'], si == 0):
                if op == '==' and {last_member(l), last_member(r)} == {('iv_fd_', 'registered_bands'), ('iv_fd_', 'wanted_bands')}:
                    S = frozenset((True, l_) for (_, l_) in S)
            st = _empty_edge(g, blk, si, key)
            if st == 'empty':      # impossible when certainly linked
                S = frozenset((s_, 'N') for (s_, l_) in S if l_ != 'L')
            elif st == 'nonempty':
                S = frozenset((s_, 'L') for (s_, l_) in S if l_ != 'N')
        return S if S else None
    _, ev_in = forward(g, frozenset([(False, 'U')]), tr, lambda a, b: a | b, edge=edge)
    sts = set()
    for p in pts:
        sts |= set(ev_in.get(p, ()))
    ok = bool(sts) and all(s_ for (s_, l_) in sts)
    slots = prog.method_tables()[t]
    ok = ok and bool(slots.get('unregister_fd'))
    return ok, ('unregister synchronously updates the kernel registration (epoll_ctl) unless nothing differs from what the '
                'kernel has; exit states (synced, linked): %s' % sorted(sts))


def _check_sub(g, un, rec, fld, spec):
    def tr(e, s):
        if is_call(e, spec['sub']) and h01.arg_member(g, e) == (rec, fld):
            return True
        return s
    _, ev_in = forward(g, False, tr, lambda a, b: a and b)
    ok = all(ev_in.get(p, True) for p in exit_points(g))
    return ok, '%s(&obj->%s) on every path of %s' % (spec['sub'], fld, un.name)


def holders(ctx):
    prog = ctx.prog
    found = discover_holders(prog)
    for sig in sorted(found):
        f, e = found[sig][0]
        if sig not in HOLDERS:
            ctx.ob('R-C01c', 'holder:%s %s.%s' % sig, False, loc=e['loc'],
                   detail='%s keeps a pointer to a %s (%s) and no unregister rule covers this holder' % (f.name, sig[1], describe(e)), fn=f.q)
    for sig, spec in sorted(HOLDERS.items()):
        if sig not in found:
            raise AnalysisBroken('tabled holder %s %s.%s no longer exists' % sig)
        inst = 'holder:%s %s.%s' % sig
        f0, e0 = found[sig][0]
        if spec['check'] == 'exempt':
            ctx.exempt('R-C01c', inst, spec['why'])
            ctx.ob('R-C01c', inst, True, loc=e0['loc'], detail='exempt: ' + spec['why'], fn=f0.q)
            continue
        rec = sig[1]
        un = prog.fn(UNREGISTER[rec])
        if spec.get('methods') == 'deferring':
            tables = deferring_tables(prog)
            if not tables:
                raise AnalysisBroken('no poll method defers notifications')
        elif spec.get('methods') == 'poll':
            tables = slot_array_tables(prog, found)
            if not tables:
                raise AnalysisBroken('no poll-array method found')
        else:
            tables = [None]
        idxkeys = None
        if spec['check'] == 'poll-slot':
            idxkeys = slot_index_keys(prog, found, sig, rec)
            if not idxkeys:
                raise AnalysisBroken('index field of the %s array slot not found' % rec)
        for t in tables:
            g = h01.inlined(prog, un, method_table=t, expand_methods=True, prune=True)
            tag = (' [%s]' % t.replace('iv_fd_poll_method_', '')) if t else ''
            if spec['check'] == 'unlinked':
                ok, det = _check_unlinked(g, un, rec, sig[2], spec)
            elif spec['check'] == 'tree':
                ok, det = _check_tree(g, un, rec, sig[2], spec)
            elif spec['check'] == 'marker':
                ok, det = _check_marker(g, un, rec, sig[2], spec)
            elif spec['check'] == 'poll-slot':
                ok, det = _check_poll_slot(g, un, rec, spec, idxkeys)
            elif spec['check'] == 'heap-slot':
                ok, det = _check_heap_slot(g, un, rec, spec)
            elif spec['check'] == 'epoll-sync':
                ok, det = _check_epoll_sync(g, un, prog, t)
            elif spec['check'] == 'sub':
                ok, det = _check_sub(g, un, rec, sig[2], spec)
            else:
                raise AnalysisBroken('unknown holder check %s' % spec['check'])
            ctx.ob('R-C01c', inst + tag, ok, loc=un.loc, detail=det, fn=un.q)


# --------------------------------------------------------------------------
# R-C01d
# --------------------------------------------------------------------------

def batch_live(ctx):
    """R-C01d: in every poll slot, after the first user callback no element of the array the kernel filled
    (nor of the descriptor array that parallels it) is read.  The arrays are identified by what they are:
    the memory block whose address is passed to the wait primitive, the array whose slots hold descriptor
    pointers; every local or field that may hold a pointer into them (h01.pointer_closure) reads them."""
    prog = ctx.prog
    found = discover_holders(prog)
    slot_seeds = set()
    for (f, e) in found.get(FD_SLOT, []):
        l = strip(e['lhs'])
        p = l['base'] if l.get('k') == 'index' else l['e']
        slot_seeds |= {d for d in h01.pointer_closure(f, h01.designators(p)) if d[0] == 'fld'}
    for t, slots in sorted(prog.method_tables().items()):
        if not slots.get('poll'):
            raise AnalysisBroken('%s: no poll slot' % t)
        f = prog.resolve(*slots['poll'])
        g = h01.inlined(prog, f, method_table=t, expand_methods=True)
        waits = [e for e in g.events() if is_call(e, tuple(WAIT_PRIMITIVES)) and e['ev'] == 'call']
        if not waits:
            raise AnalysisBroken('%s: wait primitive not found' % f.name)
        seeds = set(slot_seeds)
        for w in waits:
            a = w['args'][WAIT_PRIMITIVES[w['callee']]]
            d = h01.designators(a)
            if not d:
                raise AnalysisBroken('%s: array argument of %s not understood (%s)' % (f.name, w['callee'], canon(a)))
            seeds |= d
        T = h01.pointer_closure(g, seeds)
        def tr(e, s):
            if h01.cb_kind(g, e):
                return e.get('loc')
            return s
        _, ev_in = forward(g, '', tr, lambda a, b: a or b)
        bad = []
        nreads = 0
        for b, blk in g.blocks.items():
            pts = []
            for i, e in enumerate(blk.events):
                if e['ev'] == 'load':
                    pts.append((i, e, [e['e']]))
                else:
                    pts.append((i, e, [e[k] for k in ('rhs', 'args', 'fnexpr', 'value') if k in e]))
            if blk.term and blk.term.get('cond') is not None:
                pts.append((len(blk.events), dict(ev='load', e=blk.term['cond'], loc=blk.term.get('loc'), _b=b, _i=max(len(blk.events) - 1, 0)),
                            [blk.term['cond']]))
            for (i, e, xs) in pts:
                if not xs or not h01.reads_block(xs, T):
                    continue
                nreads += 1
                if ev_in.get((b, i)):
                    bad.append((e, ev_in[(b, i)], xs))
        if nreads == 0:
            raise AnalysisBroken('%s: no read of the kernel-filled array found' % f.name)
        e0 = bad[0][0] if bad else None
        ctx.ob('R-C01d', '%s:%s' % (t.replace('iv_fd_poll_method_', ''), f.name), not bad, loc=e0['loc'] if e0 else f.loc,
               detail=('%s is read after the user callback at %s' % (canon(bad[0][2][0]) if isinstance(bad[0][2][0], dict) else describe(e0), relpath(bad[0][1]))) if bad else
                      '%d reads of the kernel-filled array, none after a user callback' % nreads,
               path=path_to(g, e0) if e0 else None, fn=f.q)
