"""Helpers of C07 (loop-object accounting, iv_main exit test).

Local equivalents of things one would want in the shared core (see REPORT-C07.md):

  * delta()         : analyses.delta_analysis plus (a) correlation of tests of a counter's value made at
                      different points of one path (`if (!c++) A(); ... if (!--c) B();`: both tests read the
                      same underlying value when the net change in between is zero), (b) `c = c + 1` /
                      `c += 1` spellings of a unit step, (c) restart at chosen events, (d) feasibility of
                      the recorded tests of a discriminating field over an integer sample domain.
  * Effects         : what a call may do transitively (run user callbacks of which kind, enter the kernel
                      wait, write a given field), from the call graph incl. poll-method slots.
  * cb_field        : the callback field an indirect call goes through, also when the pointer was cached
                      in a local first (`h = t->handler; ...; h(cookie)`).
  * nearest_roots   : the entry points (exported / address-taken functions) closest to a function.
  * Truth / assume  : three-valued evaluation of arbitrary boolean expression trees over abstract
                      facts (used for iv_main's exit test, whatever way it is spelled).
"""
import json

from ..core import (AnalysisBroken, canon, strip, walk, norm_cond, last_member, forward,
                    lvalue_steps, lvalue_root, evloc, names_of, SWAP, NEG, fold, subst)
from ..analyses import (aval, refine, relevant_vars, liveness, _envkey, is_fail, callback_kind,
                        CALLBACK_FIELDS, HOOK_FIELDS)
from .. import roles


# --------------------------------------------------------------------------
# counters
# --------------------------------------------------------------------------

def counter_key(e):
    """(record, field) / ('global', name) of the scalar a store event writes, or None."""
    steps = lvalue_steps(e['lhs'])
    if steps and len(steps) == 1:
        return steps[0]
    if not steps:
        r = lvalue_root(e['lhs'])
        if r is not None and r.get('vk') in ('global', 'staticlocal'):
            return ('global', r['name'])
    return None


def int_of(x):
    """Value of a constant integer expression (`1`, `-1`, `(int)0`, `2 - 1`), else None."""
    if x is None:
        return None
    y = strip(fold(x))
    if isinstance(y, dict) and y.get('k') == 'int':
        return y['v']
    return None


def step_of(e):
    """Net change a store makes to the location it writes when that is a constant step:
    `x++`, `--x`, `x += 2`, `x = x - 1`, `x = 1 + x`.  None for any other store."""
    op = e.get('op')
    if op == '++':
        return 1
    if op == '--':
        return -1
    if op in ('+=', '-='):
        n = int_of(e.get('rhs'))
        return None if n is None else n * (1 if op == '+=' else -1)
    if op == '=' and 'rhs' in e:
        r = strip(e['rhs'])
        if isinstance(r, dict) and r.get('k') == 'bin' and r.get('op') in ('+', '-'):
            me = canon(e['lhs'])
            if canon(r['l']) == me and int_of(r['r']) is not None:
                return int_of(r['r']) * (1 if r['op'] == '+' else -1)
            if r['op'] == '+' and canon(r['r']) == me and int_of(r['l']) is not None:
                return int_of(r['l'])
    return None


def unit_step(g, e):
    """step_of(e), also when the old value went through a local: `was = c; ...; c = was + 1` (every definition of the
    local in g is a plain read of the same member)."""
    n = step_of(e)
    if n is not None or e.get('op') != '=' or 'rhs' not in e:
        return n
    r = strip(e['rhs'])
    key = counter_key(e)
    if not (isinstance(r, dict) and r.get('k') == 'bin' and r.get('op') in ('+', '-')) or key is None:
        return None
    for (v, c, sign) in ((r['l'], r['r'], 1 if r['op'] == '+' else -1),) + (((r['r'], r['l'], 1),) if r['op'] == '+' else ()):
        v = strip(v)
        while isinstance(v, dict) and v.get('k') in ('load', 'cast', 'paren') and 'e' in v:
            v = strip(v['e'])
        if int_of(c) is None or not (isinstance(v, dict) and v.get('k') == 'var' and v.get('vk') == 'local'):
            continue
        defs = [d for d in g.events() if d['ev'] == 'store' and isinstance(strip(d['lhs']), dict)
                and strip(d['lhs']).get('k') == 'var' and strip(d['lhs']).get('name') == v['name']]
        if defs and all(d.get('op') == '=' and 'rhs' in d and last_member(strip_cast(d["rhs"])) == key for d in defs):
            return int_of(c) * sign
    return None


def const_store(e):
    """The integer a plain `x = <const>` store writes, else None."""
    if e.get('op') == '=' and 'rhs' in e:
        return int_of(e['rhs'])
    return None


# --------------------------------------------------------------------------
# cached addresses: `int *n = &st->numobjs; ... (*n)--`, `lh = &t->list_expired; lh->next = ...`
# --------------------------------------------------------------------------

def _uncast(x):
    while isinstance(x, dict) and x.get('k') in ('cast', 'paren') and 'e' in x:
        x = x['e']
    return x


def _read_of_var(x):
    """name of the variable when x is a plain read of a variable (`load(var)`, casts allowed), else None"""
    x = _uncast(x)
    if isinstance(x, dict) and x.get('k') == 'load':
        v = _uncast(x.get('e'))
        if isinstance(v, dict) and v.get('k') == 'var':
            return v['name']
    return None


def addr_deps(L):
    """Names of the variables whose *value* the address of lvalue L is computed from, or None when computing the
    address reads memory or has side effects (`&p->q->r` reads p->q)."""
    L = _uncast(L)
    if not isinstance(L, dict):
        return None
    k = L.get('k')
    if k == 'var':
        return set()
    if k == 'member':
        if L.get('arrow'):
            n = _read_of_var(L['base'])
            return {n} if n is not None else None
        return addr_deps(L['base'])
    if k == 'deref':
        n = _read_of_var(L['e'])
        return {n} if n is not None else None
    if k == 'index':
        if 'bound' in L:
            d = addr_deps(L['base'])
        else:
            n = _read_of_var(L['base'])
            d = {n} if n is not None else None
        if d is None:
            return None
        i = _uncast(L['idx'])
        if isinstance(i, dict) and i.get('k') == 'int':
            return d
        n = _read_of_var(L['idx'])
        return (d | {n}) if n is not None else None
    return None


def _cached_addr(e):
    """(local name, addr expression, deps) when the event is `p = &L` with a memory-read-free address."""
    if e['ev'] != 'store' or e.get('op') != '=' or 'rhs' not in e:
        return None
    l = strip(e['lhs'])
    if not (isinstance(l, dict) and l.get('k') == 'var' and l.get('vk') == 'local'):
        return None
    r = _uncast(e['rhs'])
    if not (isinstance(r, dict) and r.get('k') == 'addr'):
        return None
    d = addr_deps(r['e'])
    if d is None or l['name'] in d:
        return None
    return l['name'], r, d


def deaddr(g):
    """Replace reads of a pointer local that holds the address of a named location by that address, wherever the copy
    is valid on every path (neither the local nor a variable the address is computed from was reassigned; the
    address computation reads no memory, so stores and calls cannot invalidate it), and simplify `*&X` -> X,
    `(&X)->f` -> X.f.  After this a counter stepped through a cached address (`int *n = &st->numobjs; (*n)--`), a list
    link handled through `lh = &t->list_expired`, or a pointer returned by an accessor helper are the plain
    accesses.  Mutates g (an inlined graph or a private copy); returns the number of reads replaced."""
    from ..core import simplify, subst

    # `*&X` with a value-read wrapper in between (an out-parameter `int *stop` substituted by `&stop`: `*stop = 1`
    # becomes deref(load(addr(stop)))) is X
    def undo(nd):
        if nd.get('k') == 'deref':
            b_ = nd.get('e')
            while isinstance(b_, dict) and b_.get('k') in ('load', 'cast', 'paren') and 'e' in b_:
                b_ = b_['e']
            if isinstance(b_, dict) and b_.get('k') == 'addr':
                return subst(b_['e'], undo)
        return None

    def has_deref_addr(x):
        return any(y.get('k') == 'deref' and undo(y) is not None for y in walk(x))
    for blk in g.blocks.values():
        for e in blk.events:
            for key in ('lhs', 'rhs', 'args', 'fnexpr', 'value', 'init'):
                if key in e and isinstance(e[key], (dict, list)) and has_deref_addr(e[key]):
                    e[key] = simplify(subst(e[key], undo))
        if blk.term and blk.term.get('cond') is not None and has_deref_addr(blk.term['cond']):
            blk.term = dict(blk.term, cond=simplify(subst(blk.term['cond'], undo)))
    addr_taken = set()
    for e in g.events():
        if e['ev'] == 'enter':
            continue            # marker of an inlined call: its arguments were substituted into the body
        for x in walk(e):
            if x.get('k') == 'addr':
                v = _uncast(x['e'])
                if isinstance(v, dict) and v.get('k') == 'var':
                    addr_taken.add(v['name'])
    if not any(_cached_addr(e) and _cached_addr(e)[0] not in addr_taken for e in g.events()):
        return 0

    def transfer(e, S):
        kills = set()
        ev = e['ev']
        if ev == 'store':
            l = strip(e['lhs'])
            if isinstance(l, dict) and l.get('k') == 'var':
                kills.add(l['name'])
        elif ev == 'decl':
            kills.add(e['name'])
        elif ev == 'call':
            for a in e.get('args', []):
                a = strip(a)
                if isinstance(a, dict) and a.get('k') == 'addr':
                    v = _uncast(a['e'])
                    if isinstance(v, dict) and v.get('k') == 'var':
                        kills.add(v['name'])
        if kills:
            S = frozenset(x for x in S if x[0] not in kills and not (x[2] & kills))
        c = _cached_addr(e)
        if c and c[0] not in addr_taken and not (c[2] & addr_taken):
            S = frozenset(x for x in S if x[0] != c[0]) | {(c[0], json.dumps(c[1], sort_keys=True), frozenset(c[2]))}
        return S
    _, ev_in = forward(g, frozenset(), transfer, lambda a, b: a & b)
    n = [0]

    def rewrite(x, S):
        avail = {v: ex for (v, ex, _) in S}

        def r(nd):
            if nd.get('k') == 'load':
                inner = nd.get('e')
                if isinstance(inner, dict) and inner.get('k') == 'var' and inner.get('vk') == 'local' and inner['name'] in avail:
                    n[0] += 1
                    out = json.loads(avail[inner['name']])
                    out['_was'] = inner['name']
                    return out
            return None
        return simplify(subst(x, r))

    for b, blk in g.blocks.items():
        for i, e in enumerate(blk.events):
            S = ev_in.get((b, i))
            if not S:
                continue
            for key in ('rhs', 'args', 'fnexpr', 'value', 'init', 'e'):
                if key in e and isinstance(e[key], (dict, list)):
                    e[key] = rewrite(e[key], S)
            if e['ev'] == 'store' and strip(e['lhs']).get('k') != 'var':
                e['lhs'] = rewrite(e['lhs'], S)
        S = ev_in.get((b, len(blk.events)))
        if S and blk.term and blk.term.get('cond') is not None:
            blk.term = dict(blk.term, cond=rewrite(blk.term['cond'], S))
    return n[0]


def _global_path(x):
    """'g.a.b' when x is a chain of `.` member selections on a file-scope / static variable g, else None."""
    names = []
    while isinstance(x, dict) and x.get('k') == 'member' and not x.get('arrow'):
        names.append(x['field'])
        x = x['base']
    if names and isinstance(x, dict) and x.get('k') == 'var' and x.get('vk') in ('global', 'staticlocal'):
        return '.'.join([x['name']] + list(reversed(names)))
    return None


def scalarise_globals(g):
    """File-scope state grouped into a struct (`static struct { int use_raw; ... } cfg;`): every scalar member path
    `cfg.use_raw` whose address is never taken is a variable of its own; rewrite it to a pseudo global variable named by
    its path, so that the value tracking of file-scope flags (atoms, environments, copies into helper results) treats it
    exactly as it treats a plain `static int use_raw;`.  Mutates g; returns the set of paths rewritten."""
    from ..core import subst
    paths, blocked = set(), set()

    def scan(x, under_addr):
        if isinstance(x, list):
            for y in x:
                scan(y, under_addr)
            return
        if not isinstance(x, dict):
            return
        p_ = _global_path(x) if x.get('k') == 'member' else None
        if p_ is not None:
            if under_addr or x.get('trecord') or x.get('bound') is not None:
                blocked.add(p_)
            else:
                paths.add(p_)
            # prefixes used as whole objects are found when they are visited as `var` below
            return
        k = x.get('k')
        if k == 'var' and x.get('vk') in ('global', 'staticlocal') and x.get('record') and not x.get('ptr'):
            blocked.add(x['name'])           # the struct as a whole (copied, passed, address taken)
        for key, v in x.items():
            if key in ('sizeof', '_was'):
                continue
            if isinstance(v, (dict, list)):
                scan(v, under_addr or k in ('addr', 'index'))
    for e in g.events():
        for key in ('lhs', 'rhs', 'args', 'fnexpr', 'value', 'init', 'e'):
            if key in e:
                scan(e[key], False)
    for blk in g.blocks.values():
        if blk.term and blk.term.get('cond') is not None:
            scan(blk.term['cond'], False)
    ok = {p_ for p_ in paths if p_ not in blocked and not any(p_.startswith(b_ + '.') or b_.startswith(p_ + '.') or b_ == p_.split('.')[0]
                                                             for b_ in blocked)}
    if not ok:
        return ok

    def r(nd):
        if nd.get('k') == 'member':
            p_ = _global_path(nd)
            if p_ in ok:
                out = {'k': 'var', 'name': p_, 'vk': 'global'}
                for key in ('type', 'loc', '_was'):
                    if key in nd:
                        out[key] = nd[key]
                return out
        return None
    for blk in g.blocks.values():
        for e in blk.events:
            for key in ('lhs', 'rhs', 'args', 'fnexpr', 'value', 'init', 'e'):
                if key in e and isinstance(e[key], (dict, list)):
                    e[key] = subst(e[key], r)
        if blk.term and blk.term.get('cond') is not None:
            blk.term = dict(blk.term, cond=subst(blk.term['cond'], r))
    return ok


def _pointee_record(x):
    """record a pointer expression points to, as far as the front end typed it"""
    x = strip(x)
    while isinstance(x, dict) and x.get('k') in ('cast', 'load', 'paren'):
        if x.get('k') == 'cast' and x.get('record'):
            return x['record']
        x = strip(x.get('e'))
    if not isinstance(x, dict):
        return None
    if x.get('k') == 'addr':
        y = strip(x['e'])
        if isinstance(y, dict) and y.get('k') == 'member':
            return y.get('trecord') if not y.get('tptr') else None
        return y.get('record') if isinstance(y, dict) and not y.get('ptr') else None
    if x.get('k') == 'member':
        return x.get('trecord') if x.get('tptr') else None
    if x.get('k') == 'var':
        return x.get('record') if x.get('ptr') else None
    return None


def open_container_of(prog, x):
    """`(struct T *)((char *)p - offsetof(struct T, m))` written out (the front end folds offsetof to an integer):
    the node `container_of(p, T, m)` when T has a member at that byte offset whose record is what p points to
    (any member at the offset when p's pointee is not typed), else None."""
    if not (isinstance(x, dict) and x.get('k') == 'cast' and x.get('record')):
        return None
    rec = prog.records.get(x['record'])
    b = x.get('e')
    while isinstance(b, dict) and b.get('k') in ('load', 'stmtexpr') and 'e' in b:
        b = b['e']
    if not (rec and isinstance(b, dict) and b.get('k') == 'bin' and b.get('op') == '-'):
        return None
    n = int_of(b['r'])
    if n is None or n < 0:
        return None
    # the left operand must be a byte pointer / integer: a cast of the member pointer to a character pointer type
    lc = b['l']
    while isinstance(lc, dict) and lc.get('k') in ('load', 'stmtexpr') and 'e' in lc:
        lc = lc['e']
    if not (isinstance(lc, dict) and lc.get('k') == 'cast' and not lc.get('record')):
        return None
    to = str(lc.get('to', ''))
    for w in ('const ', 'unsigned ', 'signed ', 'volatile '):
        to = to.replace(w, '')
    if to.strip() not in ('char *', 'void *', 'uint8_t *', 'uintptr_t', 'long', 'size_t'):
        return None
    ptr = lc['e']
    want = _pointee_record(ptr)
    cands = [fl for fl in rec.get('fields', []) if fl.get('offset') == n]
    if want is not None:
        cands = [fl for fl in cands if fl.get('record') == want and not fl.get('ptr')]
    if not cands:
        return None
    return {'k': 'container_of', 'e': ptr, 'record': x['record'], 'member': cands[0]['name']}


def fold_container_of(prog, g):
    """rewrite written-out container_of arithmetic in every event / branch condition of g to container_of nodes"""
    def r(nd):
        if isinstance(nd, dict):
            for k_, v_ in list(nd.items()):
                if k_.startswith('_') and k_ != '_was':
                    continue
                if isinstance(v_, dict):
                    r(v_)
                    c = open_container_of(prog, v_)
                    if c is not None:
                        nd[k_] = c
                elif isinstance(v_, list):
                    for i_, y in enumerate(v_):
                        if isinstance(y, dict):
                            r(y)
                            c = open_container_of(prog, y)
                            if c is not None:
                                v_[i_] = c
    for blk in g.blocks.values():
        for e in blk.events:
            r(e)
        if blk.term:
            r(blk.term)


def _table_inliner(prog, **kw):
    """core.Inliner that also enters calls through a *constant table of function pointers* (`T[flag].stop(st)`, see
    const_targets): the call is to one of the functions the table lists at the indexed position(s) -- with several
    candidates a dispatch over them, which table_dispatch_conditions() then labels with the index value."""
    from ..core import Inliner

    class TableInliner(Inliner):
        def _targets(self, caller, e, known_table=None):
            ts = Inliner._targets(self, caller, e, known_table)
            if ts is None and 'fnexpr' in e:
                sk = site_kind(caller, e)
                if sk is not None and sk[0] not in ('method', 'callback', 'hook'):
                    ct = const_targets(prog, caller, e['fnexpr'])
                    if ct and all(t.blocks and not self.stop(t) for t in ct) \
                            and len({(t.ret == 'void', len(t.params)) for t in ct}) == 1:
                        return ct
            return ts
    return TableInliner(prog, **kw)


def _table_index(fnexpr):
    """(index expression, True) of a call through `T[i]...` when i is the only non-constant index"""
    x = strip(fnexpr)
    idx = []
    while isinstance(x, dict):
        k = x.get('k')
        if k == 'member' and not x.get('arrow'):
            x = strip_cast(x['base'])
        elif k == 'index' and 'bound' in x:
            if int_of(x['idx']) is None:
                idx.append(x['idx'])
            x = strip_cast(x['base'])
        elif k == 'deref':
            x = strip(x['e'])
        else:
            break
    return idx[0] if len(idx) == 1 else None


def table_dispatch_conditions(prog, g):
    """A dispatch over the functions of a constant table that is indexed by a side-effect free scalar expression i
    (`T[i].f(x)` is `switch (i) { case 0: f0(x); ... }`): the dispatch becomes a cascade of two-way branches `i == k`, so
    that the analyses correlate it with the other tests of i on the path exactly as they would an if-chain."""
    new_id = max(g.blocks) + 1
    changed = False
    for b in sorted(g.blocks):
        blk = g.blocks[b]
        if not (blk.term and blk.term.get('cls') == 'MethodDispatch' and blk.events and blk.events[-1].get('ev') == 'enter'
                and 'fnexpr' in blk.events[-1] and len(blk.succ) >= 2):
            continue
        e = blk.events[-1]
        i = _table_index(e['fnexpr'])
        owner = origin(prog, g, e)
        if i is None or any(y.get('k') in ('call', 'incdec', 'assign', 'stmtexpr') for y in walk(i)):
            continue
        # which table positions the successors stand for: one target per position, in order
        per = [const_targets(prog, owner, subst(e['fnexpr'], lambda nd, k=k: {'k': 'int', 'v': k} if nd is i else None))
               for k in range(len(blk.succ))]
        if any(not p_ or len(p_) != 1 for p_ in per) or [p_[0].q for p_ in per] != list(e.get('targets', [])):
            continue
        succ = list(blk.succ)
        cur = blk
        for k in range(len(succ) - 1):
            cond = {'k': 'bin', 'op': '==', 'l': i, 'r': {'k': 'int', 'v': k}, 'type': 'int'}
            cur.term = {'cls': 'IfStmt', 'cond': cond, 'loc': e['loc'], 'table_dispatch': True}
            if k == len(succ) - 2:
                cur.succ = [succ[k], succ[k + 1]]
            else:
                nb = type(blk)(new_id, [], [], None, False)
                g.blocks[new_id] = nb
                cur.succ = [succ[k], new_id]
                cur = nb
                new_id += 1
        changed = True
    if changed:
        g._preds = None
    return g


def inline(prog, f, tables=False, **kw):
    """Inliner(prog, **kw).inline(f) followed by the local normalisations: cached addresses resolved, scalar members of
    file-scope structs turned into variables, written-out container_of arithmetic folded.  tables: also enter calls
    through constant tables of function pointers."""
    from ..core import Inliner
    if tables:
        g = _table_inliner(prog, **kw).inline(f)
        table_dispatch_conditions(prog, g)
    else:
        g = Inliner(prog, **kw).inline(f)
    deaddr(g)
    scalarise_globals(g)
    fold_container_of(prog, g)
    return g


def mentions_addr_of(f, keys):
    """Does any event of f take the address of a member in keys?"""
    for e in f.events():
        for x in walk(e):
            if x.get('k') == 'addr' and last_member(x.get('e')) in keys:
                return True
    return False


def normalised(prog, f, keys):
    """f itself, or (when f takes the address of one of the fields in keys) a private copy of f with cached addresses
    resolved.  Cached on the program object."""
    cache = prog.__dict__.setdefault('_h07_norm', {})
    k = (f.q, tuple(sorted(keys)))
    if k not in cache:
        if f.blocks and mentions_addr_of(f, keys):
            cache[k] = inline(prog, f, depth=0)
        else:
            cache[k] = f
    return cache[k]


def escaping_addrs(g, keys):
    """Events of g in which the address of a member in keys is still taken after deaddr(), other than the
    definition of a pointer local that is never read any more (all its uses were resolved)."""
    read = set()
    for e in g.events():
        for x in walk(e):
            if x.get('k') == 'load':
                v = x.get('e')
                if isinstance(v, dict) and v.get('k') == 'var':
                    read.add(v['name'])
    for blk in g.blocks.values():
        if blk.term:
            for x in walk(blk.term):
                if x.get('k') == 'load':
                    v = x.get('e')
                    if isinstance(v, dict) and v.get('k') == 'var':
                        read.add(v['name'])
    out = []
    for e in g.events():
        hit = [x for x in walk(e) if x.get('k') == 'addr' and last_member(x.get('e')) in keys]
        if not hit:
            continue
        c = _cached_addr(e)
        if c and len(hit) == 1 and hit[0] is _uncast(e['rhs']) and c[0] not in read:
            continue
        out.append(e)
    return out


# --------------------------------------------------------------------------
# integer sample-domain feasibility
# --------------------------------------------------------------------------

_SAMPLES = list(range(-12, 13)) + [1000, -1000]
_CMP = {'==': lambda a, b: a == b, '!=': lambda a, b: a != b, '<': lambda a, b: a < b, '>': lambda a, b: a > b,
        '<=': lambda a, b: a <= b, '>=': lambda a, b: a >= b}


def values_allowed(constraints, domain=None):
    """Sample values satisfying every (op, k) constraint (k an int, or 'nz' meaning "some non-zero value")."""
    out = []
    for v in (domain if domain is not None else _SAMPLES):
        ok = True
        for (op, k) in constraints:
            if k == 'nz':
                if op == '==' and v == 0:
                    ok = False
                continue
            if op in _CMP and not _CMP[op](v, k):
                ok = False
        if ok:
            out.append(v)
    return out


# --------------------------------------------------------------------------
# delta analysis with value correlation
# --------------------------------------------------------------------------

def _copied_var(e):
    """name of the variable whose value a plain store copies: `x = y`, `x = (y = f())`"""
    r = strip(e['rhs'])
    if isinstance(r, dict) and r.get('k') == 'assign' and r.get('op') == '=':
        r = strip(r['l'])
    if isinstance(r, dict) and r.get('k') == 'var' and r.get('vk') in ('local', 'param', 'global', 'staticlocal'):
        return r['name']
    return None


def _propagate_copies(env):
    """env entries '=x' -> y say x and y hold the same value: share what is known, None when contradictory"""
    for k_, y in [(k_, v_) for k_, v_ in env.items() if k_[:1] == '=']:
        x = k_[1:]
        vx, vy = env.get(x, '?'), env.get(y, '?')
        if vx == '?' and vy != '?':
            env[x] = vy
        elif vy == '?' and vx != '?':
            env[y] = vx
        elif vx != '?' and vy != '?' and vx != vy:
            zx = vx == ('c', 0)
            zy = vy == ('c', 0)
            if zx != zy or (isinstance(vx, tuple) and isinstance(vy, tuple)):
                return None
    return env


def _range_refine(env, env0, atoms, relevant):
    """Order tests of a tracked scalar variable against small constants (`pid > 0` false, later `ret < 0` with
    `ret = pid`) that the constant / non-zero domain cannot express are collected per variable in env['#name'] as
    (op, k) constraints; the conjunction of the constraints, of the variable's abstract value and of the new test is
    checked over the integer sample domain.  None when the edge is infeasible for this state.  Only removes
    infeasible paths: a constraint is recorded only when the edge really implies it (norm_cond atoms are conjuncts)."""
    for (op, lc, rc, l, r) in atoms:
        if op not in _CMP:
            continue
        lv = strip(l)
        if not (isinstance(lv, dict) and lv.get('k') == 'var' and lv.get('vk') in ('local', 'param', 'global', 'staticlocal')
                and lv['name'] in relevant):
            continue
        rv = aval(r, env0)
        if not isinstance(rv, tuple) or not isinstance(rv[1], int) or abs(rv[1]) > 10:
            continue
        names = {lv['name']}
        for k_, y in env.items():
            if k_[:1] == '=' and (k_[1:] in names or y in names):
                names |= {k_[1:], y}
        for n_ in names:
            cs = set(env.get('#' + n_, ())) | {(op, rv[1])}
            cur = env.get(n_, '?')
            chk = list(cs)
            if cur == 'nz':
                chk.append(('!=', 0))
            elif isinstance(cur, tuple):
                if not (isinstance(cur[1], int) and _CMP[op](cur[1], rv[1])):
                    return None
                continue
            if not values_allowed(chk):
                return None
            env['#' + n_] = tuple(sorted(cs))
    return env


class DeltaResult:
    def __init__(self):
        self.at = {}
        self.rets = []
        self.rets_aux = []
        self.exit_states = frozenset()
        self.ev_in = {}


def delta(fn, counters, discr=(), stop=None, call_delta=None, reset=None, maxstates=768,
          assume_dropped_success=True, root_only_rets=True, alias=None, saturate=False, aux=None):
    """Disjunctive forward analysis of the net change of `counters` ((record, field) pairs) along every
    path.  A state is (deltas, env, preds, live, base, sym):
       deltas : net change of every counter since the start (or the last `reset` event)
       env    : abstract values of scalar locals (constants / non-zero), as analyses.delta_analysis
       preds  : history of tests of `discr` fields taken by the path (arm classification)
       live   : the tests of `discr` fields since the field was last stored to (feasibility)
       base   : constraints on the value each counter had at the start, collected from tests of the
                counter (`if (!c++)`: c0 + level == 0); contradictory paths are infeasible
       sym    : locals holding a counter's value at a known offset (`old = c; c++; if (!old)`, `c = old - 1`)
    call_delta(event) -> delta tuple or None is asked for every call and store event (symbolic tokens).
    Result: .rets [(ret event | None, deltas, return class, preds)], .exit_states, .at {id(e): (e, states)}
    for events with stop(e).  alias {(record, field): (index, sign)} folds further counters into an existing
    component with a sign (so that a *difference* of two counters can be tracked through loops).  saturate:
    a component that drifts beyond +-8 sticks at +-9 instead of raising AnalysisBroken.
    aux = (initial value, transfer(e, a) -> a, edge(blk, succ index, a) -> a): a further, caller-defined component of
    every state (hashable), carried path-sensitively; reported in .rets_aux [(ret event, deltas, return class, preds, a)]."""
    cidx = {c: i for i, c in enumerate(counters)}
    alias = alias or {}
    zero = tuple(0 for _ in counters)
    discr = set(discr)
    relevant = relevant_vars(fn)
    # locals that branch conditions test (`raw = flag ? 1 : 0; if (raw) A(); if (!raw) B();`): what one test learns
    # about the local decides the later ones, as long as the local is not reassigned (liveness-bounded)
    assigned = {strip(x['lhs'])['name'] for x in fn.events()
                if x['ev'] == 'store' and isinstance(strip(x['lhs']), dict) and strip(x['lhs']).get('k') == 'var'}
    for blk_ in fn.blocks.values():
        c_ = blk_.term.get('cond') if blk_.term else None
        if c_ is not None and blk_.term.get('cls') not in ('SwitchStmt', 'MethodDispatch'):
            for y in walk(c_):
                if y.get('k') == 'var' and y.get('vk') == 'local' and y['name'] in assigned:
                    relevant.add(y['name'])
    live_after = liveness(fn, relevant)
    globals_seen = set()
    for x in fn.events():
        for y in walk(x):
            if y.get('k') == 'var' and y.get('vk') in ('global', 'staticlocal'):
                globals_seen.add(y['name'])
    fresh = (zero, (), frozenset(), frozenset(), frozenset(), (), aux[0] if aux else None)

    def key_of(lhs):
        steps = lvalue_steps(lhs)
        if steps:
            return steps[0] if len(steps) == 1 else None
        r_ = lvalue_root(lhs)
        if r_ is not None and r_.get('vk') in ('global', 'staticlocal') and strip(lhs).get('k') == 'var':
            return ('global', r_['name'])
        return None

    def read_key(x):
        """counter key of a plain read expression"""
        x = strip(x)
        if not isinstance(x, dict):
            return None
        if x.get('k') == 'member':
            k = (x.get('record'), x['field'])
            return k if (k in cidx or k in alias) else None
        if x.get('k') == 'var' and x.get('vk') in ('global', 'staticlocal'):
            k = ('global', x['name'])
            return k if (k in cidx or k in alias) else None
        return None

    def rel(x, sym):
        """(counter key, off) when the value of x is (current value of the counter) + off."""
        x = strip(x)
        if not isinstance(x, dict):
            return None
        k = x.get('k')
        if k == 'incdec':
            ck = read_key(x['e'])
            if ck is None:
                return None
            if x['prefix']:
                return (ck, 0)
            return (ck, -1 if x['op'] == '++' else 1)      # the store event has already been applied
        if k == 'var' and x.get('vk') in ('local', 'param'):
            for s_ in sym:
                if s_[0] == x['name'] and len(s_) == 3:
                    return (s_[1], -s_[2])
            return None
        ck = read_key(x)
        if ck is not None:
            return (ck, 0)
        if k == 'bin' and x.get('op') in ('+', '-'):
            a_ = rel(x['l'], sym)
            if a_ is not None and int_of(x['r']) is not None:
                return (a_[0], a_[1] + int_of(x['r']) * (1 if x['op'] == '+' else -1))
            b_ = rel(x['r'], sym)
            if b_ is not None and int_of(x['l']) is not None and x['op'] == '+':
                return (b_[0], b_[1] + int_of(x['l']))
        return None

    def brel(x, sym):
        """(counter key, off, op, k) when the truth of x is `(current value of the counter + off) op k`:
        a comparison of a counter-relative value with a constant, its negation, or a local holding one."""
        x = strip(x)
        if not isinstance(x, dict):
            return None
        k = x.get('k')
        if k == 'var' and x.get('vk') in ('local', 'param'):
            for s_ in sym:
                if s_[0] == x['name'] and len(s_) == 5:
                    return (s_[1], -s_[2], s_[3], s_[4])
            return None
        if k == 'un' and x.get('op') == '!':
            b_ = brel(x['e'], sym)
            if b_ is not None:
                return (b_[0], b_[1], NEG[b_[2]], b_[3])
            r_ = rel(x['e'], sym)
            return (r_[0], r_[1], '==', 0) if r_ is not None else None
        if k == 'bin' and x.get('op') in _CMP:
            l_, r2, op_ = x['l'], x['r'], x['op']
            if int_of(l_) is not None and int_of(r2) is None:
                l_, r2, op_ = r2, l_, SWAP[op_]
            r_ = rel(l_, sym)
            if r_ is not None and int_of(r2) is not None:
                return (r_[0], r_[1], op_, int_of(r2))
            b_ = brel(l_, sym)
            if b_ is not None and int_of(r2) == 0 and op_ in ('==', '!='):
                return b_ if op_ == '!=' else (b_[0], b_[1], NEG[b_[2]], b_[3])
        return None

    def lin(x, d, sym):
        """(counter index, level) when the value of x is base[counter] + level, given current deltas d."""
        r_ = rel(x, sym)
        if r_ is None or r_[0] not in cidx:
            return None
        i = cidx[r_[0]]
        return (i, d[i] + r_[1])

    def bump(d, i, n, key):
        d2 = list(d)
        d2[i] += n
        if abs(d2[i]) > 8:
            if saturate:
                d2[i] = 9 if d2[i] > 0 else -9
            else:
                raise AnalysisBroken('counter %s.%s changes without bound in %s (loop?)' % (key[0], key[1], fn.name))
        return tuple(d2)

    def tr_one(e, st):
        d, envk, preds, live, base, sym, ax = st
        if aux:
            ax = aux[1](e, ax)
        ev = e['ev']
        if ev == 'store':
            key = key_of(e['lhs'])
            if key in cidx or key in alias:
                n = step_of(e)
                if n is None and e.get('op') == '=' and 'rhs' in e:
                    r_ = rel(e['rhs'], sym)          # `c = cached - 1`
                    if r_ is not None and r_[0] == key:
                        n = r_[1]
                if n is None:
                    raise AnalysisBroken('counter %s.%s written by a store that is not a constant step at %s'
                                         % (key[0], key[1], evloc(e)))
                if key in cidx:
                    d = bump(d, cidx[key], n, key)
                else:
                    d = bump(d, alias[key][0], alias[key][1] * n, key)
                if sym:
                    sym = tuple((s_[0], s_[1], s_[2] + n if s_[1] == key else s_[2]) + tuple(s_[3:]) for s_ in sym
                                if not (s_[1] == key and abs(s_[2] + n) > 16))
            for stp in lvalue_steps(e['lhs']):
                if stp in discr and live:
                    live = frozenset(p for p in live if p[0] != stp)
            l = strip(e['lhs'])
            if l.get('k') == 'var':
                nm = l['name']
                new = None
                if e['op'] == '=' and 'rhs' in e and (cidx or alias) and l.get('vk') == 'local':
                    r_ = rel(e['rhs'], sym)
                    if r_ is not None:
                        new = (nm, r_[0], -r_[1])
                    else:
                        b_ = brel(e['rhs'], sym)          # `first = (old == 0);`
                        if b_ is not None:
                            new = (nm, b_[0], -b_[1], b_[2], b_[3])
                if sym and any(s_[0] == nm for s_ in sym):
                    sym = tuple(s_ for s_ in sym if s_[0] != nm)
                if new is not None:
                    sym = tuple(sorted(set(sym) | {new}))
                env = dict(envk)
                dirty = False
                # copies of nm are no longer copies
                for k_ in [k_ for k_, v_ in env.items() if k_ == '=' + nm or (k_[:1] == '=' and v_ == nm)]:
                    env.pop(k_)
                    dirty = True
                if env.pop('#' + nm, None) is not None:          # range constraints of the old value
                    dirty = True
                src_ = _copied_var(e) if e['op'] == '=' and 'rhs' in e else None
                if src_ is not None and src_ != nm and nm in relevant and env.get('#' + src_):
                    env['#' + nm] = env['#' + src_]               # `ret = pid;`: what is known of pid's range holds for ret
                    dirty = True
                if nm in relevant:
                    v = aval(e['rhs'], env) if e['op'] == '=' and 'rhs' in e else '?'
                    if v == '?':
                        env.pop(nm, None)
                        src = _copied_var(e) if e['op'] == '=' and 'rhs' in e else None
                        if src is not None and src != nm and src in relevant:
                            # `err = ret;` with ret not known yet: what a later test learns about one holds for the other
                            if env.get(src, '?') != '?':
                                env[nm] = env[src]
                            else:
                                env['=' + nm] = src
                    else:
                        env[nm] = v
                    dirty = True
                if dirty:
                    envk = _envkey(env)
            if call_delta:
                cd = call_delta(e)          # open-coded operations (list link / unlink written as stores)
                if cd:
                    for i_, n_ in enumerate(cd):
                        if n_:
                            d = bump(d, i_, n_, counters[i_])
        elif ev == 'decl':
            if sym and any(s_[0] == e['name'] for s_ in sym):
                sym = tuple(s_ for s_ in sym if s_[0] != e['name'])
        elif ev == 'leave':
            if assume_dropped_success and e.get('ret_unused') and e.get('retvar') and e.get('rettype') == 'int':
                v = dict(envk).get(e['retvar'], '?')
                if is_fail(v):
                    return None
        elif ev == 'call':
            env = None
            if 'fnexpr' in e:
                # user code may run: file-scope flags, counter values and tested fields may all change
                env = {k: v for k, v in dict(envk).items()
                       if k not in globals_seen and not (k[:1] == '=' and v in globals_seen)
                       and not (k[:1] == '#' and k[1:] in globals_seen)}
                base, sym, live = frozenset(), (), frozenset()
            for a in e.get('args', []):
                a = strip(a)
                if isinstance(a, dict) and a.get('k') == 'addr':
                    v = strip(a['e'])
                    if v.get('k') == 'var':
                        if env is None:
                            env = dict(envk)
                        env.pop(v['name'], None)
                        env.pop('#' + v['name'], None)
                        for k_ in [k_ for k_, v_ in env.items() if k_ == '=' + v['name'] or (k_[:1] == '=' and v_ == v['name'])]:
                            env.pop(k_)
                        if sym:
                            sym = tuple(s_ for s_ in sym if s_[0] != v['name'])
            if env is not None:
                envk = _envkey(env)
            if call_delta:
                cd = call_delta(e)
                if cd:
                    for i_, n_ in enumerate(cd):
                        if n_:
                            d = bump(d, i_, n_, counters[i_])
        return (d, envk, preds, live, base, sym, ax)

    def transfer(e, S):
        if reset is not None and reset(e):
            # the event itself is the first of the new section
            S = frozenset([fresh])
        out = set()
        la = live_after.get((e['_b'], e['_i']))
        for st in S:
            r = tr_one(e, st)
            if r is not None:
                if la is not None and r[1]:
                    r = (r[0], tuple(kv for kv in r[1] if kv[0] in la or kv[0] in globals_seen
                                     or (kv[0][:1] == '#' and (kv[0][1:] in la or kv[0][1:] in globals_seen))
                                     or (kv[0][:1] == '=' and kv[0][1:] in la
                                         and (kv[1] in la or kv[1] in globals_seen)))) + r[2:]
                out.add(r)
        if len(out) > maxstates:
            raise AnalysisBroken('state explosion in delta analysis of %s' % fn.name)
        return frozenset(out)

    def edge(blk, si, S):
        if blk.term and blk.term.get('cls') == 'SwitchStmt' and blk.term.get('cases') and blk.term.get('cond') is not None \
                and si < len(blk.term['cases']):
            # switch on a tracked local / constant: only the matching label's edge when the value is known, and the
            # label's value is known on its edge
            cases = blk.term['cases']
            labels = [c_ for c_ in cases if c_ != 'default']
            cv = strip(blk.term['cond'])
            nm = cv['name'] if isinstance(cv, dict) and cv.get('k') == 'var' and cv.get('vk') in ('local', 'param') \
                and cv['name'] in relevant else None
            out = set()
            lm = last_member(blk.term['cond'])
            if lm in discr:
                # switch on a discriminating field: the label edge says field == label, the default edge field != label
                # for every label (same bookkeeping as for if-tests: arm classification and feasibility)
                new = {(lm, '==', cases[si])} if cases[si] != 'default' else {(lm, '!=', k_) for k_ in labels}
                for st in S:
                    l2 = st[3] | new
                    if values_allowed([(o_, k_) for (m_, o_, k_) in l2 if m_ == lm]):
                        out.add(st[:2] + (st[2] | new, l2) + st[4:])
                return frozenset(out) if out else None
            for st in S:
                v = aval(blk.term['cond'], dict(st[1]))
                if isinstance(v, tuple):
                    hit = cases[si] == v[1] if cases[si] != 'default' else v[1] not in labels
                    if hit:
                        out.add(st)
                elif nm is not None and cases[si] != 'default' and not (v == 'nz' and cases[si] == 0):
                    env = dict(st[1])
                    env[nm] = ('c', cases[si])
                    env = _propagate_copies(env)
                    if env is not None:
                        out.add((st[0], _envkey(env)) + st[2:])
                elif not (v == 'nz' and cases[si] == 0):
                    out.add(st)
            return frozenset(out) if out else None
        if not blk.term or len(blk.succ) < 2 or blk.term.get('cls') in ('SwitchStmt', 'MethodDispatch'):
            return S
        c = blk.term.get('cond')
        if c is None:
            return S
        atoms = norm_cond(c, si == 0)
        out = set()
        for (d, envk, preds, live, base, sym, ax) in S:
            env0 = dict(envk)
            env = refine(env0, atoms, relevant)
            if env is not None:
                env = _propagate_copies(env)
            if env is None:
                continue
            v = aval(c, env0)
            if isinstance(v, tuple) and bool(v[1]) != (si == 0):
                continue
            if v == 'nz' and si != 0:
                continue
            p2, l2, b2 = preds, live, base
            dead = False
            for (op, lc, rc, l, r) in atoms:
                if op == 'const':
                    continue
                rv = aval(r, {})
                lm = last_member(l)
                if lm in discr and rv != '?':
                    pr = (lm, op, rv[1] if isinstance(rv, tuple) else 'nz')
                    p2 = p2 | {pr}
                    l2 = l2 | {pr}
                    if not values_allowed([(o_, k_) for (m_, o_, k_) in l2 if m_ == lm]):
                        dead = True
                if cidx and isinstance(rv, tuple) and op in _CMP:
                    lv = lin(l, d, sym)
                    if lv is not None:
                        b2 = b2 | {(lv[0], op, rv[1] - lv[1])}
                        if not values_allowed([(o_, k_) for (i_, o_, k_) in b2 if i_ == lv[0]]):
                            dead = True
                    elif rv[1] == 0 and op in ('==', '!='):
                        # a local that holds the outcome of an earlier test of the counter (`first = (old == 0)`)
                        bl = brel(l, sym)
                        if bl is not None and bl[0] in cidx:
                            i_b = cidx[bl[0]]
                            opb = bl[2] if op == '!=' else NEG[bl[2]]
                            b2 = b2 | {(i_b, opb, bl[3] - (d[i_b] + bl[1]))}
                            if not values_allowed([(o_, k_) for (i_, o_, k_) in b2 if i_ == i_b]):
                                dead = True
            if not dead:
                dead = _range_refine(env, env0, atoms, relevant) is None
            if dead:
                continue
            out.add((d, _envkey(env), p2, l2, b2, sym, aux[2](blk, si, ax) if aux else ax))
        return frozenset(out) if out else None

    _, ev_in = forward(fn, frozenset([fresh]), transfer, lambda a, b: a | b, edge=edge)
    res = DeltaResult()
    res.ev_in = ev_in
    for b, blk in fn.blocks.items():
        for i, e in enumerate(blk.events):
            S = ev_in.get((b, i))
            if not S:
                continue
            if stop and stop(e):
                res.at[id(e)] = (e, S)
            if e['ev'] == 'ret' and not (root_only_rets and e.get('chain')):
                for st in S:
                    rc = 'void'
                    if 'value' in e:
                        rc = aval(e['value'], dict(st[1]))
                    res.rets.append((e, st[0], rc, st[2]))
                    res.rets_aux.append((e, st[0], rc, st[2], st[6]))
    res.exit_states = frozenset((st[0], st[1], st[2]) for st in ev_in.get((fn.exit, 0), frozenset()))
    return res


# --------------------------------------------------------------------------
# callback sites, also through a cached function pointer
# --------------------------------------------------------------------------

def cb_field(fn, e):
    """(record, field, object expression) of the function-pointer member an indirect call goes through.
    `t->handler(c)` directly, or `h(c)` where every definition of the local h in fn is a read of the same
    member.  None when the call is not through a member."""
    if e['ev'] != 'call' or 'fnexpr' not in e:
        return None
    fe = strip(e['fnexpr'])
    lm = last_member(fe)
    if lm is not None:
        return (lm[0], lm[1], fe.get('base'))
    if isinstance(fe, dict) and fe.get('k') == 'var' and fe.get('vk') in ('local',):
        found = None
        for d in fn.events():
            if d['ev'] == 'store' and strip(d['lhs']).get('k') == 'var' and strip(d['lhs'])['name'] == fe['name']:
                r = strip(d.get('rhs')) if d.get('op') == '=' else None
                lm2 = last_member(r) if r is not None else None
                if lm2 is None:
                    return None
                cur = (lm2[0], lm2[1], r.get('base'))
                if found is not None and found[:2] != cur[:2]:
                    return None
                found = cur
        return found
    return None


def value_member(fn, x):
    """(record, field) of the member whose value expression x carries: the member itself, or a local all of whose
    definitions in fn read that member."""
    fe = strip(x)
    lm = last_member(fe)
    if lm is not None:
        return lm
    if isinstance(fe, dict) and fe.get('k') == 'var' and fe.get('vk') == 'local':
        r = cb_field(fn, {'ev': 'call', 'fnexpr': fe})
        return (r[0], r[1]) if r else None
    return None


def site_kind(fn, e):
    """Like analyses.callback_kind but resolving a cached handler pointer:
    ('callback', kind) / ('hook', kind) / ('method', slot) / ('param', name) / ('unknown', text) / None."""
    if e['ev'] != 'call' or 'fnexpr' not in e:
        return None
    cf = cb_field(fn, e)
    if cf is not None:
        k = (cf[0], cf[1])
        if k in CALLBACK_FIELDS:
            return ('callback', CALLBACK_FIELDS[k])
        if k in HOOK_FIELDS:
            return ('hook', HOOK_FIELDS[k])
        if k[0] == 'iv_fd_poll_method':
            return ('method', k[1])
    return callback_kind(e)


def passed_callbacks(fn, e):
    """Kinds of user callbacks whose function pointer (read from a callback field, possibly through a caching local) the
    direct call e hands to its callee (`iv_invoke(t->handler, t->cookie)`): the callee is a trampoline for them."""
    out = []
    if e['ev'] != 'call' or 'callee' not in e:
        return out
    for a in e.get('args', []):
        vm = value_member(fn, a)
        if vm in CALLBACK_FIELDS:
            out.append(('callback', CALLBACK_FIELDS[vm]))
        elif vm in HOOK_FIELDS:
            out.append(('hook', HOOK_FIELDS[vm]))
    return out


# --------------------------------------------------------------------------
# transitive effects of calls
# --------------------------------------------------------------------------

def const_targets(prog, owner, fnexpr):
    """Functions an indirect call may enter when the called pointer is read from a constant table: a (const or never
    written) global with an initialiser, reached by constant or variable indexing and member selection
    (`stages[i].run(st)`, `ops.tasks(st)`).  None when the expression is not such a read."""
    x = strip(fnexpr)
    path = []
    while isinstance(x, dict):
        k = x.get('k')
        if k == 'member' and not x.get('arrow'):
            path.append(('f', x['field']))
            x = strip_cast(x['base'])
        elif k == 'index' and 'bound' in x:
            i = strip(x['idx'])
            path.append(('i', i['v'] if isinstance(i, dict) and i.get('k') == 'int' else None))
            x = strip_cast(x['base'])
        elif k == 'deref':
            x = strip(x['e'])       # (*table[i])(...)
        else:
            break
    if not (isinstance(x, dict) and x.get('k') == 'var' and x.get('vk') in ('global', 'staticlocal')) or not path:
        return None
    u = prog.unit_of(owner) if owner is not None else None
    gl = prog.global_for(u, x['name']) if u else prog.globals.get(x['name'])
    if not isinstance(gl, dict) or not isinstance(gl.get('init'), dict):
        return None
    if not str(gl.get('type', '')).startswith('const') and prog.global_writers(x['name']):
        return None
    nodes = [gl['init']]
    for (kind, v) in reversed(path):
        nxt = []
        for n_ in nodes:
            if not isinstance(n_, dict) or n_.get('k') != 'init':
                continue
            if kind == 'f':
                if v in n_.get('fields', {}):
                    nxt.append(n_['fields'][v])
            else:
                el = n_.get('elems', [])
                nxt += el if v is None else el[v:v + 1]
        nodes = nxt
    out = []
    for n_ in nodes:
        n_ = strip(n_)
        if isinstance(n_, dict) and n_.get('k') == 'addr':
            n_ = strip(n_['e'])
        if isinstance(n_, dict) and n_.get('k') == 'var' and n_.get('vk') == 'func':
            t = prog.resolve(gl.get('unit'), n_['name']) if gl.get('unit') else prog.funcs.get(n_['name'])
            if t is not None and t not in out:
                out.append(t)
    return out or None


def strip_cast(x):
    while isinstance(x, dict) and x.get('k') in ('cast', 'paren', 'load') and 'e' in x:
        x = x['e']
    return x


class Effects:
    """tags(f): what calling f may do, transitively over direct calls and poll-method slots:
         ('cb', kind)   run a user callback / hook of that kind
         ('block',)     enter the poll method's `poll` slot (the kernel wait)
         ('w', record, field)  store to one of the `watch` fields"""

    def __init__(self, prog, watch=()):
        self.prog = prog
        self.watch = set(watch)
        own, callees = {}, {}
        funcs = prog.all_funcs()
        for f0 in funcs:
            t, cs = set(), set()
            u = prog.unit_of(f0)
            f = normalised(prog, f0, self.watch) if self.watch else f0
            if f is not f0 and escaping_addrs(f, self.watch):
                # the address of a watched field leaves the function: whoever gets it may write the field
                t |= {('w',) + tuple(k) for k in self.watch}
            for e in f.events():
                if e['ev'] == 'store':
                    k = counter_key(e)
                    if k in self.watch:
                        t.add(('w',) + tuple(k))
                elif e['ev'] == 'call':
                    if 'callee' in e:
                        g = prog.resolve(u, e['callee']) if u else prog.funcs.get(e['callee'])
                        # a call that never returns cannot influence what the caller does next
                        if g is not None and g.blocks and not (g.noreturn or e.get('noreturn')):
                            cs.add(g.q)
                            # a handler pointer handed to a repo function: that function is a trampoline for it
                            for (_, kind_) in passed_callbacks(f, e):
                                t.add(('cb', kind_))
                    else:
                        sk = site_kind(f, e)
                        if sk is None:
                            continue
                        ct = const_targets(prog, f0, e['fnexpr']) if sk[0] not in ('method', 'callback', 'hook') else None
                        if ct:
                            # table-driven dispatch: the call enters one of the functions the constant table lists
                            cs.update(g.q for g in ct if g.blocks and not g.noreturn)
                            continue
                        if sk[0] == 'method':
                            if sk[1] == 'poll':
                                t.add(('block',))
                            for g in prog.slot_targets(sk[1]):
                                cs.add(g.q)
                        elif sk[0] in ('callback', 'hook'):
                            t.add(('cb', sk[1]))
                        else:
                            t.add(('cb', 'unknown'))
            own[f.q], callees[f.q] = t, cs
        tags = {q: set(v) for q, v in own.items()}
        changed = True
        while changed:
            changed = False
            for q, cs in callees.items():
                for c in cs:
                    extra = tags.get(c, set()) - tags[q]
                    if extra:
                        tags[q] |= extra
                        changed = True
        self.tags = tags

    def of_func(self, f):
        return self.tags.get(f.q, set()) if f is not None else set()

    def of_call(self, owner, e):
        """Tags of one call event; owner = the function whose body the event comes from."""
        prog = self.prog
        if e['ev'] not in ('call',):
            return set()
        if 'callee' in e:
            u = prog.unit_of(owner) if owner is not None else None
            g = prog.resolve(u, e['callee']) if u else prog.funcs.get(e['callee'])
            if g is not None and (g.noreturn or e.get('noreturn')):
                return set()
            t = set(self.of_func(g))
            if g is not None and g.blocks and owner is not None:
                t |= {('cb', kind_) for (_, kind_) in passed_callbacks(owner, e)}
            return t
        sk = site_kind(owner, e) if owner is not None else callback_kind(e)
        if sk is None:
            return set()
        ct = const_targets(prog, owner, e['fnexpr']) if sk[0] not in ('method', 'callback', 'hook') else None
        if ct:
            t = set()
            for g in ct:
                if not g.noreturn:
                    t |= self.of_func(g)
            # ('cb', 'task') is used as "task handlers *are* run by this call": with several possible targets only when
            # every one of them does
            if ('cb', 'task') in t and not all(('cb', 'task') in self.of_func(g) for g in ct):
                t = (t - {('cb', 'task')}) | {('cb', 'unknown')}
            return t
        if sk[0] == 'method':
            t = {('block',)} if sk[1] == 'poll' else set()
            for g in prog.slot_targets(sk[1]):
                t |= self.of_func(g)
            return t
        if sk[0] in ('callback', 'hook'):
            return {('cb', sk[1])}
        return {('cb', 'unknown')}


def origin(prog, g, e):
    """The source function an event of an inlined graph comes from."""
    q = e.get('fn')
    if q and q in prog.funcs:
        return prog.funcs[q]
    return getattr(g, 'inlined_from', None) or g


# --------------------------------------------------------------------------
# roots
# --------------------------------------------------------------------------

def nearest_roots(prog, f):
    """Entry points (external linkage in a .c file, or address taken) closest to f on every caller chain:
    f itself when it is one, else the first such function met going up the direct-call graph."""
    rts = {r.q for r in roles.roots(prog)}
    out, seen, work = {}, {f.q}, [f]
    while work:
        x = work.pop()
        if x.q in rts:
            out[x.q] = x
            continue
        cs = [c for (c, e) in prog.callers_of(x.name)
              if (prog.resolve(prog.unit_of(c), e['callee']) if prog.unit_of(c) else None) in (None, x)]
        if not cs:
            out[x.q] = x        # unreferenced static: analyse it on its own
        for c in cs:
            if c.q not in seen:
                seen.add(c.q)
                work.append(c)
    return [out[q] for q in sorted(out)]


def _mentions_var(x, pred):
    return any(isinstance(y, dict) and y.get('k') == 'var' and pred(y) for y in walk(x))


def _call_only_param(f, idx):
    """Is the idx-th parameter of f (a pointer into a table of function pointers) used for nothing but reading it,
    stepping it and calling through it: never copied into another variable or memory, never handed on to a call,
    never returned?  Then what it points to can be called only while f runs."""
    if f is None or not f.blocks or idx >= len(f.params):
        return False
    name = f.params[idx]['name']
    is_p = lambda y: y.get('vk') == 'param' and y.get('name') == name
    for e in f.events():
        if e['ev'] == 'store':
            l = strip(e['lhs'])
            own = isinstance(l, dict) and l.get('k') == 'var' and is_p(l)
            if not own and (_mentions_var(e['lhs'], is_p) or ('rhs' in e and _mentions_var(e['rhs'], is_p))):
                return False
        elif e['ev'] == 'call':
            if any(_mentions_var(a, is_p) for a in e.get('args', [])):
                return False
        elif e['ev'] == 'ret':
            if 'value' in e and _mentions_var(e['value'], is_p):
                return False
    return True


def table_callers(prog, x):
    """Function x's address is taken.  When that happens only in initialisers of constant file-scope tables (const, or
    never written) -> the functions from which x can be entered through such a table: those that name the table, each
    use being a call through an element (`T[i](st)`, `T[i].run(st)`) or handing the table to a repo function that only
    reads / steps / calls through that parameter (`run_hooks(st, T, n)`).  None when the address is used in any other
    way (stored, passed on, a table that is written or escapes)."""
    for f in prog.all_funcs():
        u = prog.unit_of(f)
        for e in f.events():
            for y in walk(e):
                if y.get('k') == 'var' and y.get('vk') == 'func' and y.get('name') == x.name:
                    t = prog.resolve(u, y['name']) if u else prog.funcs.get(y['name'])
                    if t is None or t.q == x.q:
                        return None
    tabs = []
    for q, gl in prog.globals.items():
        init = gl.get('init') if isinstance(gl, dict) else None
        if not isinstance(init, dict):
            continue
        unit = gl.get('unit') or (q.split(':')[0] if ':' in q else None)
        hit = False
        for y in walk(init):
            if y.get('k') == 'var' and y.get('vk') == 'func' and y.get('name') == x.name:
                t = (prog.resolve(unit, y['name']) if unit else None) or prog.funcs.get(y['name'])
                if t is None or t.q == x.q:
                    hit = True
        if hit:
            if not str(gl.get('type', '')).startswith('const') and prog.global_writers(gl['name']):
                return None
            tabs.append((q, gl, unit))
    if not tabs:
        return None
    out = {}
    for (q, gl, unit) in tabs:
        is_t = lambda y, gl=gl: y.get('vk') in ('global', 'staticlocal') and y.get('name') == gl['name']
        for f in prog.all_funcs():
            u = prog.unit_of(f)
            if prog.global_key(u, gl['name']) != q if u else gl.get('static'):
                continue
            for e in f.events():
                if e['ev'] == 'load' or not _mentions_var(e, is_t):
                    continue
                if e['ev'] != 'call':
                    return None
                for i, a in enumerate(e.get('args', [])):
                    if not _mentions_var(a, is_t):
                        continue
                    a0 = strip_cast(a)
                    while isinstance(a0, dict) and a0.get('k') == 'addr':      # &T[0]
                        a0 = strip_cast(a0.get('e'))
                        if isinstance(a0, dict) and a0.get('k') == 'index':
                            a0 = strip_cast(a0.get('base'))
                    h = (prog.resolve(u, e['callee']) if u else prog.funcs.get(e['callee'])) if 'callee' in e else None
                    if not (isinstance(a0, dict) and a0.get('k') == 'var' and is_t(a0)) or not _call_only_param(h, i):
                        return None
                out[f.q] = f
    return [out[k] for k in sorted(out)]


def only_through(prog, f, gate):
    """Every call chain that reaches f passes through `gate`: climbing the callers of f and stopping at gate, every
    function met has a caller; a function whose address is taken is entered only through constant tables of function
    pointers (table_callers), whose users then count as its callers."""
    at = roles.address_taken(prog)
    seen, work = {f.q}, [f]
    while work:
        x = work.pop()
        if x.q == gate.q:
            continue
        via = []
        if x.q in at:
            via = table_callers(prog, x)
            if via is None:
                return False
        cs = [c for (c, e) in prog.callers_of(x.name)
              if (prog.resolve(prog.unit_of(c), e['callee']) if prog.unit_of(c) else None) in (None, x)] + via
        if not cs:
            return False
        for c in cs:
            if c.q not in seen:
                seen.add(c.q)
                work.append(c)
    return True


def param_values(prog, f, x, depth=3):
    """The set of integers expression x of function f can evaluate to when x is a constant or a (never reassigned)
    parameter of f that every caller passes a constant for (followed up the call graph a few levels); None when
    that cannot be established (address of f taken, no caller, computed argument)."""
    v = int_of(x)
    if v is not None:
        return {v}
    y = strip(x)
    if not (isinstance(y, dict) and y.get('k') == 'var' and y.get('vk') == 'param') or depth <= 0:
        return None
    idx = [i for i, p_ in enumerate(f.params) if p_['name'] == y['name']]
    if not idx or f.q in roles.address_taken(prog):
        return None
    for e in f.events():
        if e['ev'] == 'store' and strip(e['lhs']).get('k') == 'var' and strip(e['lhs'])['name'] == y['name']:
            return None
    cs = [(c, e) for (c, e) in prog.callers_of(f.name)
          if (prog.resolve(prog.unit_of(c), e['callee']) if prog.unit_of(c) else None) in (None, f)]
    if not cs:
        return None
    out = set()
    for (c, e) in cs:
        if idx[0] >= len(e.get('args', [])):
            return None
        r = param_values(prog, c, e['args'][idx[0]], depth - 1)
        if r is None:
            return None
        out |= r
    return out


# --------------------------------------------------------------------------
# copy families of object variables (definition-based formulations)
# --------------------------------------------------------------------------

def copy_family(g, name):
    """Locals connected to `name` by plain copies (`a = b`, `a = (T *)b`, helper result temporaries),
    flow-insensitively; the objects they designate are the same object."""
    fam = {name}
    changed = True
    while changed:
        changed = False
        for e in g.events():
            if e['ev'] == 'store' and e.get('op') == '=' and 'rhs' in e:
                l, r = strip(e['lhs']), strip(e['rhs'])
                if isinstance(l, dict) and l.get('k') == 'var' and isinstance(r, dict) and r.get('k') == 'var' \
                        and r.get('vk') != 'func':
                    # follow copies *into* the family (where the value comes from)
                    if l['name'] in fam and r['name'] not in fam:
                        fam.add(r['name'])
                        changed = True
    return fam


def origin_defs(g, fam):
    """pred(e): e gives a variable of the family a new value that is not a copy of another member."""
    def pred(e):
        if e['ev'] != 'store':
            return False
        l = strip(e['lhs'])
        if not (isinstance(l, dict) and l.get('k') == 'var' and l['name'] in fam):
            return False
        r = strip(e.get('rhs')) if 'rhs' in e else None
        if e.get('op') == '=' and isinstance(r, dict) and r.get('k') == 'var' and r['name'] in fam:
            return False
        return True
    return pred


def obj_root_name(x):
    """Name of the local/param an object expression (`t`, `(T *)t`, `&t->list`) is rooted at."""
    while isinstance(x, dict):
        k = x.get('k')
        if '_was' in x and not (k == 'addr' and isinstance(strip(x.get('e')), dict) and strip(x['e']).get('k') == 'member'):
            # a read of this local was replaced by the value it caches (copy propagation).  Not for a local that cached
            # the address of a *member* (`lh = &t->list_expired`, resolved by deaddr): the object is the member's base.
            return x['_was']
        if k == 'var':
            return x['name'] if x.get('vk') in ('local', 'param') else None
        if k == 'member':
            x = x['base']
        elif k in ('addr', 'deref', 'load', 'cast', 'stmtexpr') and 'e' in x:
            x = x['e']
        else:
            return None
    return None


# --------------------------------------------------------------------------
# list link operations on a typed member, also through a container_of alias
# --------------------------------------------------------------------------

class Aliases(set):
    """Spellings (names / canonical texts) of pointers that denote `&obj->field`; .defs maps a local that was
    assigned `&obj->field` to that expression (so that the object can be recovered)."""

    def __init__(self, *a):
        set.__init__(self, *a)
        self.defs = {}


def link_aliases(g, record, field):
    """Pointers that are `&obj->field` for an obj of `record`:
      * because obj was computed from them by container_of (`ilh = batch.next; t = iv_list_entry(ilh, struct
        iv_task_, list)`),
      * locals every definition of which is `&obj->field` (or a copy of such a local):
        `lh = &t->list_expired; ... iv_list_add_tail(lh, &timers)`."""
    out = Aliases()
    for e in g.events():
        if e['ev'] == 'store' and 'rhs' in e:
            r = strip(e['rhs'])
            if isinstance(r, dict) and r.get('k') == 'container_of' and (r.get('record'), r.get('member')) == (record, field):
                out |= names_of(r['e'])
                out.add(canon(r['e']))
    defs = {}
    for e in g.events():
        if e['ev'] == 'store':
            l = strip(e['lhs'])
            if isinstance(l, dict) and l.get('k') == 'var' and l.get('vk') == 'local':
                defs.setdefault(l['name'], []).append(e)
    good, changed = {}, True
    while changed:
        changed = False
        for n, evs in defs.items():
            if n in good:
                continue
            xs = []
            for e in evs:
                r = strip(e['rhs']) if e.get('op') == '=' and 'rhs' in e else None
                if isinstance(r, dict) and r.get('k') == 'addr' and last_member(r['e']) == (record, field):
                    xs.append(r)
                elif isinstance(r, dict) and r.get('k') == 'var' and r.get('name') in good:
                    xs.append(good[r['name']])
                else:
                    xs = None
                    break
            if xs:
                good[n] = xs[0]
                changed = True
    out.defs = good
    return out


def _ptr_def(p, aliases):
    """The `&obj->field` expression a local pointer stands for (see link_aliases), else the expression itself."""
    a = strip(p)
    d = getattr(aliases, 'defs', None)
    if d and isinstance(a, dict) and a.get('k') == 'var' and a.get('name') in d:
        return d[a['name']]
    return p


def _is_link_of(ptr_or_obj, is_ptr, record, field, aliases):
    """Does the expression denote the `field` list head embedded in an object of `record`
    (as an lvalue when not is_ptr, as a pointer to it when is_ptr)?"""
    if not is_ptr:
        return last_member(ptr_or_obj) == (record, field)
    a = strip(_ptr_def(ptr_or_obj, aliases))
    if isinstance(a, dict) and a.get('k') == 'addr' and last_member(a['e']) == (record, field):
        return True
    return bool(aliases) and bool(names_of(ptr_or_obj) & set(aliases) or canon(ptr_or_obj) in aliases)


def _head_of(m):
    """For a `next`/`prev` member node of a list head: (expression of the head, is_pointer)."""
    return (m['base'], True) if m.get('arrow') else (m['base'], False)


def link_site(e, record, field, aliases=()):
    """(+1 | -1, object link expression) when the event links / unlinks the `field` list head of an object of
    `record`: iv_list_add*(&obj->field, ...) / iv_list_del*(&obj->field), or the open-coded forms
    `X->prev->next = X->next` (unlink) and `<other>->next = X` (link).  None otherwise."""
    if e['ev'] == 'call' and e.get('callee') in ('iv_list_add', 'iv_list_add_tail', 'iv_list_del', 'iv_list_del_init') \
            and e.get('args'):
        if _is_link_of(e['args'][0], True, record, field, aliases):
            return (1 if e['callee'] in ('iv_list_add', 'iv_list_add_tail') else -1, _ptr_def(e['args'][0], aliases))
        return None
    if e['ev'] == 'store' and e.get('op') == '=' and 'rhs' in e:
        l = strip(e['lhs'])
        if not (isinstance(l, dict) and l.get('k') == 'member' and l.get('record') == 'iv_list_head' and l['field'] == 'next'):
            return None
        head, isptr = _head_of(l)
        r = strip(e['rhs'])
        # X->prev->next = X->next
        hp = strip(head)
        if isptr and isinstance(hp, dict) and hp.get('k') == 'member' and hp.get('record') == 'iv_list_head' and hp['field'] == 'prev' \
                and isinstance(r, dict) and r.get('k') == 'member' and r.get('record') == 'iv_list_head' and r['field'] == 'next':
            x1, p1 = _head_of(hp)
            x2, p2 = _head_of(r)
            if p1 == p2 and canon(x1) == canon(x2) and _is_link_of(x1, p1, record, field, aliases):
                return (-1, _ptr_def(x1, aliases) if p1 else {'k': 'addr', 'e': x1})
            return None
        # <other head>->next = X
        if _is_link_of(e['rhs'], True, record, field, aliases) and not _is_link_of(head, isptr, record, field, aliases):
            return (1, _ptr_def(e['rhs'], aliases))
    return None


def link_op(e, record, field, aliases=()):
    """+1 / -1 / 0, see link_site."""
    r = link_site(e, record, field, aliases)
    return r[0] if r else 0


# --------------------------------------------------------------------------
# three-valued evaluation of boolean expression trees over abstract facts
# --------------------------------------------------------------------------

class Facts:
    """Which expressions are facts: map a leaf expression to a key, and give each key a finite sample
    domain.  Values are 'z' (zero), 'nz' (non-zero), '?'.

    An environment maps keys to 'z' / 'nz' and may hold `('alias', local) -> json(expression)`: the local was
    assigned that expression (built from facts not decided at the time) and nothing it reads has changed
    since, so a test of the local is a test of the expression."""

    def __init__(self, members):
        self.members = members          # {(record, field): domain}

    def key(self, x):
        x = strip(x)
        if isinstance(x, dict) and x.get('k') == 'member' and (x.get('record'), x['field']) in self.members:
            return (x.get('record'), x['field'])
        if isinstance(x, dict) and x.get('k') == 'var' and x.get('vk') in ('local', 'param'):
            return ('var', x['name'])
        return None

    def domain(self, key):
        return self.members.get(key, (0, 1, 2, -1))

    def reads_fact(self, x):
        return any(y.get('k') == 'member' and (y.get('record'), y['field']) in self.members for y in walk(x))

    # hooks for facts that are not read through a plain member (see LoopFacts)
    def expand(self, x, env):
        """an expression equivalent to x under env (identity here)"""
        return x

    def special(self, x, env):
        """(key, polarity) when the (stripped) expression x is a truth test of a fact that is not a member read"""
        return None

    def pure_call(self, x):
        """is the call expression x a side-effect free read of a fact?"""
        return False


class LoopFacts(Facts):
    """Facts plus *list emptiness*: `iv_list_empty(&X->field)` for the tabled (record, field) is the truth test
    "key is zero" (key non-zero = something is linked into the list), and a call expression of a helper that the inliner
    expanded stands for the helper's result variable on the current path (env[('inl', call location)] = instance
    number, recorded at the `enter` event)."""

    def __init__(self, members, lists):
        Facts.__init__(self, members)
        self.lists = dict(lists)          # {(record, field) of the list head: key}

    def head_key(self, a, env=None):
        """key of the list whose head the pointer expression a is the address of: `&X->field`, or a pointer local that
        was assigned that (env[('lst', name)], maintained by the client's transfer function)"""
        a = strip(a)
        if isinstance(a, dict) and a.get('k') == 'addr':
            return self.lists.get(last_member(a['e']))
        if env is not None and isinstance(a, dict) and a.get('k') == 'var':
            return env.get(('lst', a['name']))
        return None

    def _list_key(self, x, env=None):
        if isinstance(x, dict) and x.get('k') == 'call' and x.get('callee') == 'iv_list_empty' and len(x.get('args', [])) == 1:
            return self.head_key(x['args'][0], env)
        return None

    def expand(self, x, env):
        y = strip(x)
        if env is not None and isinstance(y, dict) and y.get('k') == 'call' and 'callee' in y and y.get('loc'):
            n = env.get(('inl', y['loc']))
            if n is not None:
                return {'k': 'load', 'e': {'k': 'var', 'name': '$ret%d' % n, 'vk': 'local'}}
        if isinstance(y, dict) and y.get('k') == 'call' and 'callee' in y and self._list_key(y, env) is None:
            r = self._pure_result(y)
            if r is not None:
                return r
        return x

    def _pure_result(self, call):
        """The expression a call of a repo function that was *not* inlined (a predicate with external linkage in
        another file) evaluates to, when the function is a single `return <side-effect free expression over list
        emptiness tests and its parameters>`: that expression with the arguments substituted."""
        prog = getattr(self, 'prog', None)
        t = prog.funcs.get(call['callee']) if prog is not None else None
        if t is None or not t.blocks or len(t.params) != len(call.get('args', [])):
            return None
        cache = prog.__dict__.setdefault('_h07_pure', {})
        if t.q not in cache:
            body = t.pristine()
            rets = [e for e in body.events() if e['ev'] == 'ret']
            ok = len(rets) == 1 and 'value' in rets[0] and self.reads_fact(rets[0]['value'])
            for e in body.events():
                if e['ev'] in ('store', 'decl') or (e['ev'] == 'call' and self._list_key(dict(e, k='call')) is None):
                    ok = False
            if ok:
                for y in walk(rets[0]['value']):
                    if (y.get('k') == 'call' and self._list_key(y) is None) or \
                            y.get('k') in ('assign', 'incdec', 'stmtexpr', 'other', 'deep', 'va_arg', 'init', 'compound'):
                        ok = False
            cache[t.q] = rets[0]['value'] if ok else None
        v = cache[t.q]
        if v is None:
            return None
        byname = {p_['name']: a for p_, a in zip(t.params, call['args'])}

        def f(nd):
            if nd.get('k') == 'load' and isinstance(nd.get('e'), dict) and nd['e'].get('k') == 'var' and nd['e'].get('vk') == 'param' \
                    and nd['e']['name'] in byname:
                return byname[nd['e']['name']]
            return None
        from ..core import subst
        return subst(v, f)

    def special(self, x, env):
        key = self._list_key(x, env)
        return (key, False) if key is not None else None

    def pure_call(self, x):
        return self._list_key(x) is not None

    def reads_fact(self, x):
        return Facts.reads_fact(self, x) or any(self._list_key(y) is not None for y in walk(x))


_BOOLISH = ('==', '!=', '<', '>', '<=', '>=', '&&', '||')


def alias_value(facts, x):
    """json of x when a local assigned x can stand for it: a side-effect free expression that reads a fact."""
    for y in walk(x):
        if y.get('k') == 'call' and facts.pure_call(y):
            continue
        if y.get('k') in ('call', 'assign', 'incdec', 'stmtexpr', 'other', 'deep', 'va_arg', 'init', 'compound'):
            return None
    if not facts.reads_fact(x):
        return None
    return json.dumps(x, sort_keys=True)


def alias_mentions(val, name):
    return any(y.get('k') == 'var' and y.get('name') == name for y in walk(json.loads(val)))


def _alias_expr(env, key):
    if env is not None and key is not None and key[0] == 'var':
        v = env.get(('alias', key[1]))
        if v is not None:
            return json.loads(v)
    return None


def _domain_of(facts, env, key):
    ax = _alias_expr(env, key)
    if ax is not None:
        y = strip(ax)
        k2 = facts.key(y)
        if k2 is not None and k2[0] != 'var':
            return facts.domain(k2)
        if isinstance(y, dict) and ((y.get('k') == 'bin' and y.get('op') in _BOOLISH) or (y.get('k') == 'un' and y.get('op') == '!')):
            return (0, 1)
    return facts.domain(key)


def _leaf(facts, x, env=None):
    """(key, polarity) when expression x is equivalent to `key is non-zero` (polarity True) or `key is zero`
    (polarity False) over the key's domain; ('const', bool) when constant; None when it says nothing."""
    x = strip(x)
    if not isinstance(x, dict):
        return None
    k = x.get('k')
    if k == 'int':
        return ('const', bool(x['v']))
    if k == 'null':
        return ('const', False)
    sp = facts.special(x, env)
    if sp is not None:
        return sp
    key = facts.key(x)
    if key is not None:
        return (key, True)
    if k == 'bin' and x.get('op') in _CMP:
        l, r, op = x['l'], x['r'], x['op']
        if facts.key(l) is None and facts.key(r) is not None:
            l, r, op = r, l, SWAP[op]
        key = facts.key(l)
        c = int_of(r)
        if c is None and isinstance(strip(r), dict) and strip(r).get('k') == 'null':
            c = 0
        if key is None and c is None and int_of(l) is not None:
            l, r, op, c = r, l, SWAP[op], int_of(l)
        sl = strip(facts.expand(l, env))
        sp = facts.special(sl, env) if isinstance(sl, dict) and c is not None else None
        if sp is not None:
            # a 0/1-valued truth test compared with a constant (`iv_list_empty(&X) == 0`)
            truth_ = {v for v in (0, 1) if _CMP[op](v, c)}
            if truth_ == {1}:
                return sp
            if truth_ == {0}:
                return (sp[0], not sp[1])
            return ('const', bool(truth_))
        if key is not None and c is not None:
            dom = _domain_of(facts, env, key)
            truth_ = {v for v in dom if _CMP[op](v, c)}
            nzs = {v for v in dom if v != 0}
            if truth_ == nzs:
                return (key, True)
            if truth_ == set(dom) - nzs:
                return (key, False)
            if truth_ == set(dom):
                return ('const', True)
            if not truth_:
                return ('const', False)
    return None


def leaf_of(facts, env, x):
    return _leaf(facts, x, env)


def _flip(v):
    return {'z': 'nz', 'nz': 'z'}.get(v, '?')


def truth(facts, env, x):
    """'z' / 'nz' / '?' : value of x as a truth value under env."""
    x = strip(facts.expand(x, env))
    if not isinstance(x, dict):
        return '?'
    k = x.get('k')
    if k == 'un' and x.get('op') == '!':
        return _flip(truth(facts, env, x['e']))
    if k == 'bin' and x.get('op') in ('&&', '||', '|'):
        a, b = truth(facts, env, x['l']), truth(facts, env, x['r'])
        if x['op'] in ('||', '|'):          # a | b is non-zero iff a or b is
            if 'nz' in (a, b):
                return 'nz'
            return 'z' if (a, b) == ('z', 'z') else '?'
        if 'z' in (a, b):
            return 'z'
        return 'nz' if (a, b) == ('nz', 'nz') else '?'
    if k == 'cond':
        c = truth(facts, env, x['c'])
        if c == 'nz':
            return truth(facts, env, x['a'])
        if c == 'z':
            return truth(facts, env, x['b'])
        a, b = truth(facts, env, x['a']), truth(facts, env, x['b'])
        return a if a == b else '?'
    lf = _leaf(facts, x, env)
    if lf is None:
        return '?'
    if lf[0] == 'const':
        return 'nz' if lf[1] else 'z'
    v = env.get(lf[0], '?')
    if v == '?':
        ax = _alias_expr(env, lf[0])
        if ax is not None:
            v = truth(facts, {k_: v_ for k_, v_ in env.items() if k_ != ('alias', lf[0][1])}, ax)
    if v == '?':
        return '?'
    return v if lf[1] else _flip(v)


def value(facts, env, x):
    """The integer x evaluates to under env when that is decided: a constant, a local whose stored value is known
    (env[('val', name)]), `c ? a : b` with c decided, !, comparisons and +/- of decided values.  Else None."""
    x = strip(facts.expand(x, env))
    if not isinstance(x, dict):
        return None
    k = x.get('k')
    if k == 'int':
        return x['v']
    if k == 'null':
        return 0
    if k == 'var' and x.get('vk') in ('local', 'param'):
        return env.get(('val', x['name']))
    if k == 'cond':
        c = truth(facts, env, x['c'])
        if c == 'nz':
            return value(facts, env, x['a'])
        if c == 'z':
            return value(facts, env, x['b'])
        a, b = value(facts, env, x['a']), value(facts, env, x['b'])
        return a if a == b else None
    if k == 'un' and x.get('op') == '!':
        t = truth(facts, env, x['e'])
        return {'z': 1, 'nz': 0}.get(t)
    if k == 'un' and x.get('op') == '-':
        v = value(facts, env, x['e'])
        return None if v is None else -v
    if k == 'bin' and x.get('op') in _CMP:
        a, b = value(facts, env, x['l']), value(facts, env, x['r'])
        if a is not None and b is not None:
            return int(_CMP[x['op']](a, b))
        t = truth(facts, env, x)
        return {'z': 0, 'nz': 1}.get(t)
    if k == 'bin' and x.get('op') in ('&&', '||'):
        t = truth(facts, env, x)
        return {'z': 0, 'nz': 1}.get(t)
    if k == 'bin' and x.get('op') in ('+', '-'):
        a, b = value(facts, env, x['l']), value(facts, env, x['r'])
        if a is not None and b is not None:
            return a + b if x['op'] == '+' else a - b
    return None


def switch_edge(facts, env, term, si):
    """Environments on the si-th edge of a switch terminator (term['cases'] parallel to the successors): the edge of
    the matching label only when the controlling value is decided, else each label edge refined by `cond == label`
    and the default edge by `cond != label` for every label."""
    cases = term.get('cases')
    cond = term.get('cond')
    if not cases or cond is None or si >= len(cases):
        return [env]
    v = value(facts, env, cond)
    labels = [c for c in cases if c != 'default']
    if v is not None:
        hit = cases[si] == v if cases[si] != 'default' else v not in labels
        return [env] if hit else []

    def eq(kv):
        return {'k': 'bin', 'op': '==', 'l': cond, 'r': {'k': 'int', 'v': kv}}
    if cases[si] != 'default':
        out = assume(facts, env, eq(cases[si]), True)
        c = strip(cond)
        if isinstance(c, dict) and c.get('k') == 'var' and c.get('vk') in ('local', 'param'):
            out = [dict(e_, **{('val', c['name']): cases[si]}) for e_ in out]
        return out
    envs = [env]
    for kv in labels:
        envs = [e2 for e1 in envs for e2 in assume(facts, e1, eq(kv), False)]
    return envs


def assume(facts, env, x, pol):
    """Environments (dicts) refining env in which x has truth value pol; [] when impossible.
    Handles arbitrary nesting of ! && || | ?: , comparisons of fact keys with constants, and locals that
    stand for an expression (aliases)."""
    x = strip(facts.expand(x, env))
    if not isinstance(x, dict):
        return [env]
    k = x.get('k')
    if k == 'un' and x.get('op') == '!':
        return assume(facts, env, x['e'], not pol)
    if k == 'bin' and x.get('op') in ('&&', '||', '|'):
        conj = (x['op'] == '&&') == pol          # both operands have value pol
        if conj:
            out = []
            for e1 in assume(facts, env, x['l'], pol):
                out += assume(facts, e1, x['r'], pol)
            return out
        out = list(assume(facts, env, x['l'], pol))              # decided by the left operand
        for e1 in assume(facts, env, x['l'], not pol):
            out += assume(facts, e1, x['r'], pol)
        return out
    if k == 'cond':
        out = []
        for e1 in assume(facts, env, x['c'], True):
            out += assume(facts, e1, x['a'], pol)
        for e1 in assume(facts, env, x['c'], False):
            out += assume(facts, e1, x['b'], pol)
        return out
    lf = _leaf(facts, x, env)
    if lf is None:
        return [env]
    if lf[0] == 'const':
        return [env] if lf[1] == pol else []
    want = 'nz' if (lf[1] == pol) else 'z'
    cur = env.get(lf[0], '?')
    if cur != '?':
        return [env] if cur == want else []
    ax = _alias_expr(env, lf[0])
    if ax is not None:
        # the local stands for an expression: the test refines the facts the expression reads
        inner = {k_: v_ for k_, v_ in env.items() if k_ != ('alias', lf[0][1])}
        out = []
        for e1 in assume(facts, inner, ax, want == 'nz'):
            e2 = dict(e1)
            e2[lf[0]] = want
            e2[('alias', lf[0][1])] = env[('alias', lf[0][1])]
            out.append(e2)
        return out
    e2 = dict(env)
    e2[lf[0]] = want
    return [e2]
