/* N1/C18 replay: epoll_ctl(ADD) of the shared kick descriptor fails once ->
 * iv_fd_epoll_event_rx_on() keeps its reference; after unregistering everything
 * and iv_deinit() one descriptor stays open for the life of the process. */
#define _GNU_SOURCE
#include <stdio.h>
#include <stdlib.h>
#include <dirent.h>
#include <errno.h>
#include <pthread.h>
#include <unistd.h>
#include <sys/epoll.h>
#include <sys/syscall.h>
#include <iv.h>
#include <iv_event.h>

static int fail_next_add;
int epoll_ctl(int epfd, int op, int fd, struct epoll_event *ev)
{
	if (op == EPOLL_CTL_ADD && fail_next_add) {
		fail_next_add = 0;
		errno = ENOSPC;
		return -1;
	}
	return syscall(SYS_epoll_ctl, epfd, op, fd, ev);
}
static int count_fds(void)
{
	DIR *d = opendir("/proc/self/fd"); int n = 0;
	while (readdir(d)) n++;
	closedir(d);
	return n;
}
static void h(void *c) {}
static void *thr(void *x) { return NULL; }
int main(void)
{
	pthread_t t; pthread_create(&t, NULL, thr, NULL); pthread_join(t, NULL);
	int before = count_fds();
	for (int round = 0; round < 3; round++) {
		struct iv_event ev;
		iv_init();
		IV_EVENT_INIT(&ev); ev.handler = h;
		fail_next_add = (round == 0);
		if (iv_event_register(&ev)) { printf("register failed\n"); return 2; }
		iv_event_unregister(&ev);
		iv_deinit();
		printf("round %d: open descriptors before=%d after=%d\n", round, before, count_fds());
	}
	return count_fds() != before;
}
