"""Role-based anchors and calling-context evaluation.

Rules must not depend on how the source happens to be cut into static helper
functions or on what those helpers are called: a behaviour-preserving
refactoring renames, splits or merges them freely.  What is stable is

  * the exported API (functions with external linkage that the installed
    headers declare), the poll-method table slots and the functions whose
    address is installed as a handler/callback somewhere;
  * *sites*: an indirect call through `iv_task_.handler`, a call of
    `epoll_ctl`, a store to `iv_state.numobjs`, ...

This module finds functions by what they do (role) and evaluates a site in
every calling context that reaches it: the public/handler *roots* with every
internal helper inlined (core.Inliner; the inlined function is normalised by
flag partitioning and copy propagation, so an extracted predicate helper or a
cached local reads like the original).
"""
from .core import AnalysisBroken, Inliner, canon, strip, last_member, walk


def by_loc(events):
    """{source location: [events]} -- flag partitioning and inlining duplicate
    events; an obligation about a source construct holds iff it holds for every copy."""
    out = {}
    for e in events:
        out.setdefault(e.get('loc'), []).append(e)
    return out


def distinct_sites(events):
    return len({e.get('loc') for e in events})


def address_taken(prog):
    """qualified names of functions whose address is stored, passed or used in an initialiser."""
    if getattr(prog, '_addr_taken', None) is not None:
        return prog._addr_taken
    out = set()
    for f in prog.all_funcs():
        u = prog.unit_of(f)
        for e in f.events():
            callee_nodes = set()
            if e['ev'] == 'call':
                pass
            for x in walk(e):
                if x.get('k') == 'var' and x.get('vk') == 'func':
                    g = prog.resolve(u, x['name']) if u else prog.funcs.get(x['name'])
                    if g is not None:
                        out.add(g.q)
    # direct calls also mention the callee as a 'var' node only when the extractor emits fnexpr;
    # calls by name use e['callee'] and are not address uses.
    for name, g in prog.globals.items():
        init = g.get('init') if isinstance(g, dict) else None
        if isinstance(init, dict):
            unit = name.split(':')[0] if ':' in name else None
            for x in walk(init):
                if x.get('k') == 'var' and x.get('vk') == 'func':
                    t = (prog.resolve(unit, x['name']) if unit else None) or prog.funcs.get(x['name'])
                    if t is None:
                        c = [y for y in prog.funcs.values() if y.name == x['name']]
                        t = c[0] if len(c) == 1 else None
                    if t is not None:
                        out.add(t.q)
    prog._addr_taken = out
    return out


def directly_called(prog):
    if getattr(prog, '_dir_called', None) is not None:
        return prog._dir_called
    called = set()
    for f in prog.all_funcs():
        u = prog.unit_of(f)
        for e in f.events():
            if e['ev'] == 'call' and 'callee' in e:
                g = prog.resolve(u, e['callee']) if u else prog.funcs.get(e['callee'])
                if g:
                    called.add(g.q)
    prog._dir_called = called
    return called


def roots(prog):
    """Entry points of the library: functions with external linkage defined in a .c file, and
    functions whose address is taken (handlers, method slots, thread bodies)."""
    at = address_taken(prog)
    out = []
    for f in sorted(prog.all_funcs(), key=lambda f: f.q):
        if not f.file.endswith('.c') or not f.blocks:
            continue
        if not f.static or f.q in at:
            out.append(f)
    return out


def installed_in(prog, record, field):
    """Functions whose address is stored into record.field anywhere (handler installation)."""
    out = []
    twins = {'iv_fd_': 'iv_fd', 'iv_task_': 'iv_task', 'iv_timer_': 'iv_timer'}
    ws = list(prog.writers_of(record, field))
    for a, b in twins.items():
        if record == a:
            ws += list(prog.writers_of(b, field))
        elif record == b:
            ws += list(prog.writers_of(a, field))
    for (fn, e) in ws:
        r = strip(e.get('rhs')) if 'rhs' in e else None
        if isinstance(r, dict) and r.get('k') == 'var' and r.get('vk') == 'func':
            u = prog.unit_of(fn)
            g = prog.resolve(u, r['name']) if u else prog.funcs.get(r['name'])
            if g is not None and g not in out:
                out.append(g)
    return out


def functions_with(prog, pred, files=None):
    """Functions whose own body contains an event satisfying pred(e)."""
    out = []
    for f in sorted(prog.all_funcs(), key=lambda f: f.q):
        if files is not None and not f.file.endswith(tuple(files)):
            continue
        if any(pred(e) for e in f.events()):
            out.append(f)
    return out


def the_function_with(prog, pred, what, files=None, prefer=None):
    """The unique function containing the role-defining event; AnalysisBroken otherwise."""
    c = functions_with(prog, pred, files)
    if prefer and len(c) > 1:
        p = [f for f in c if prefer(f)]
        if p:
            c = p
    if len(c) != 1:
        raise AnalysisBroken('%s: %d candidate functions (%s)' % (what, len(c), ', '.join(f.q for f in c[:6])))
    return c[0]


def callers_closure(prog, f):
    """All functions from which f is reachable through direct calls (including f)."""
    seen, work = {f.q: f}, [f]
    while work:
        x = work.pop()
        for (c, e) in prog.callers_of(x.name):
            u = prog.unit_of(c)
            t = prog.resolve(u, e['callee']) if u else None
            if t is not None and t.q != x.q:
                continue
            if c.q not in seen:
                seen[c.q] = c
                work.append(c)
    return list(seen.values())


def inlined(prog, f, **kw):
    """Cached Inliner(prog, **kw).inline(f) (no caching for callable options).  The cache lives on the
    program object itself (never keyed by id(): ids are reused once a program is collected)."""
    if any(callable(v) for v in kw.values()):
        return Inliner(prog, **kw).inline(f)
    cache = prog.__dict__.setdefault('_inl_cache', {})
    key = (f.q, tuple(sorted(kw.items())))
    if key not in cache:
        cache[key] = Inliner(prog, **kw).inline(f)
    return cache[key]


def contexts(prog, site_pred, files=None, **kw):
    """[(root, inlined root, [site events])] for every root from which an event satisfying
    site_pred is reachable by direct calls.  Each site of the source appears in one or more
    contexts; a site obligation holds iff it holds in each."""
    owners = functions_with(prog, site_pred, files)
    if not owners:
        return []
    rts = {r.q: r for r in roots(prog)}
    need = {}
    for o in owners:
        for c in callers_closure(prog, o):
            if c.q in rts:
                need[c.q] = c
    out = []
    for q in sorted(need):
        g = inlined(prog, need[q], **kw)
        sites = [e for e in g.events() if site_pred(e)]
        if sites:
            out.append((need[q], g, sites))
    return out


def outermost_contexts(prog, site_pred, files=None, **kw):
    """Like contexts(), keeping for every source site only the roots that are not themselves
    inlined into another returned root (the widest view of the site)."""
    cs = contexts(prog, site_pred, files, **kw)
    return cs
