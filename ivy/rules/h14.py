"""Role-based helpers of C14 (local equivalents of things that would belong into ivy/roles.py / ivy/analyses.py).

Nothing here is keyed by the *name of a static function*: functions are found by what is done with
them (installed as the process signal handler, passed to the thread-creation call, registered with
pthread_atfork, stored into a handler field of a particular object, listed in a tls-user initialiser,
constructor attribute) or by being exported (external linkage).  Accesses are attributed to the
innermost *stable* frame of their calling context, so extracting, inlining or renaming static helpers
changes neither which exemption applies nor the instance names/counts of the obligations.
"""
from ..core import AnalysisBroken, strip, strip_load, canon, last_member, lvalue_steps, lvalue_root, forward, norm_cond, walk
from ..analyses import locksets, held
from .. import roles


# --------------------------------------------------------------------------
# functions by role
# --------------------------------------------------------------------------

def func_node(prog, user, node):
    """Func that a (possibly &-prefixed / cast) function designator used inside `user` refers to."""
    n = strip(node)
    if isinstance(n, dict) and n.get('k') == 'addr':
        n = strip(n['e'])
    if not (isinstance(n, dict) and n.get('k') == 'var' and n.get('vk') == 'func'):
        return None
    u = prog.unit_of(user)
    return (prog.resolve(u, n['name']) if u else None) or prog.funcs.get(n['name'])


def _uniq(fs):
    out, seen = [], set()
    for f in fs:
        if f is not None and f.q not in seen:
            seen.add(f.q)
            out.append(f)
    return out


def event_pool(prog):
    """(function for name resolution, event) of every function and of every inlined entry point registered with
    set_graphs(): in an inlined graph the arguments of helpers are substituted, so `h->handler = fn` inside an
    initialisation helper reads `pool->ev.handler = iv_work_event` there."""
    for f in prog.all_funcs():
        for e in f.events():
            yield f, e
    for g in getattr(prog, '_h14_graphs', ()):
        for e in g.events():
            if e.get('chain'):
                yield (prog.funcs.get(e.get('fn')) or g), e


def set_graphs(prog, graphs):
    prog._h14_graphs = list(graphs)


def signal_installs(prog):
    """[(handler Func, installing Func, store event)] for every `X.sa_handler = f` / `X.sa_sigaction = f`."""
    out = []
    seen = set()
    for f, e in event_pool(prog):
        if e['ev'] == 'store' and 'rhs' in e:
            lm = last_member(e['lhs'])
            if lm and lm[1] in ('sa_handler', 'sa_sigaction'):
                h = func_node(prog, f, e['rhs'])
                if h is not None and (h.q, e.get('loc')) not in seen:
                    seen.add((h.q, e.get('loc')))
                    out.append((h, f, e))
    return out


def call_func_args(prog, callees):
    """[(caller, call event, [Func or None per argument])] for direct calls of one of `callees`."""
    out = []
    for f, e in event_pool(prog):
        if e['ev'] in ('call', 'enter') and e.get('callee') in callees:
            out.append((f, e, [func_node(prog, f, a) for a in e.get('args', [])]))
    return out


ATFORK = ('pthr_atfork', 'pthread_atfork')
THREAD_CREATE = ('iv_thread_create', 'pthr_create', 'pthread_create')


def atfork_triples(prog):
    """[(prepare, parent, child)] handler triples registered with pthread_atfork."""
    out = []
    for (_, _, fs) in call_func_args(prog, ATFORK):
        t = tuple(fs[:3])
        if len(t) == 3 and any(x is not None for x in t) and [x.q if x else None for x in t] not in [[y.q if y else None for y in o] for o in out]:
            out.append(t)
    return out


def thread_bodies(prog):
    """Functions passed to a thread-creation call (they run as the body of a new thread)."""
    return _uniq(x for (_, _, fs) in call_func_args(prog, THREAD_CREATE) for x in fs)


def installed_at(prog, steps):
    """Functions stored into the location whose lvalue steps start with `steps`
    (innermost first: [('iv_event','handler'), ('work_pool_priv','ev')] is `pool->ev.handler`)."""
    out = []
    steps = list(steps)
    for f, e in event_pool(prog):
        if e['ev'] == 'store' and 'rhs' in e and list(lvalue_steps(e['lhs']))[:len(steps)] == steps:
            out.append(func_node(prog, f, e['rhs']))
    return _uniq(out)


def initialiser_hooks(prog, record, field):
    """Functions named in the static initialiser of field `field` of a file-scope object of type `record`."""
    out = []
    for key, g in sorted(prog.globals.items()):
        init = g.get('init') if isinstance(g, dict) else None
        if g.get('record') == record and isinstance(init, dict) and init.get('k') == 'init':
            v = strip(init.get('fields', {}).get(field))
            if isinstance(v, dict) and v.get('k') == 'addr':
                v = strip(v['e'])
            if isinstance(v, dict) and v.get('k') == 'var' and v.get('vk') == 'func':
                t = prog.resolve(g.get('unit'), v['name']) or prog.funcs.get(v['name'])
                out.append(t)
    return _uniq(out)


def constructors(prog):
    return [f for f in prog.all_funcs() if f.constructor]


def api(prog, *names):
    """Exported (external linkage) functions by name; a vanished API anchor breaks the analysis."""
    out = []
    for n in names:
        f = prog.funcs.get(n)
        if f is None or f.static or not f.blocks:
            raise AnalysisBroken('exported function %s not found' % n)
        out.append(f)
    return out


def stable_functions(prog):
    """q-names of the functions a refactoring cannot rename, split off or merge away unnoticed:
    external linkage (defined in a .c file) or address taken (handlers, slots, thread bodies)."""
    c = getattr(prog, '_h14_stable', None)
    if c is None:
        at = roles.address_taken(prog)
        c = {f.q for f in prog.all_funcs() if f.blocks and ((not f.static and f.file.endswith('.c')) or f.q in at)}
        prog._h14_stable = c
    return c


# --------------------------------------------------------------------------
# calling context of an event of an inlined root
# --------------------------------------------------------------------------

def frames(e, root):
    """q-names of the functions whose invocation is active at the event, outermost first."""
    return [root.q] + [c[2] for c in (e.get('chain') or [])]


def anchor_frame(prog, e, root):
    """Innermost active frame that is a stable function: the unit an access is attributed to."""
    st = stable_functions(prog)
    for q in reversed(frames(e, root)):
        if q in st:
            return q
    return root.q


def short(q):
    return q.split(':')[-1]


def only_within(prog, f, anchors, _seen=None):
    """True iff every way to execute `f` passes through one of the functions `anchors` (q-names):
    f is an anchor, or f is neither exported nor address-taken and each of its callers is only_within."""
    _seen = set() if _seen is None else _seen
    if f.q in anchors:
        return True
    if f.q in _seen:
        return True          # recursion: decided by the other callers
    _seen.add(f.q)
    if f.q in stable_functions(prog):
        return False
    callers = []
    for (c, e) in prog.callers_of(f.name):
        u = prog.unit_of(c)
        t = (prog.resolve(u, e['callee']) if u else None) or prog.funcs.get(e['callee'])
        if t is not None and t.q == f.q:
            callers.append(c)
    if not callers:
        return False
    return all(only_within(prog, c, anchors, _seen) for c in callers)


# --------------------------------------------------------------------------
# small dataflow predicates on an inlined root
# --------------------------------------------------------------------------

def may_follow(g, pred, reset=None):
    """{(b,i): bool}: some path from the entry to the point executed an event matching pred
    (and none matching reset since)."""
    def tr(e, s):
        if pred(e):
            return True
        if reset is not None and reset(e):
            return False
        return s
    _, ev_in = forward(g, False, tr, lambda a, b: a or b)
    return ev_in


def must_follow(g, pred):
    """{(b,i): bool}: every path from the entry to the point executed an event matching pred."""
    def tr(e, s):
        return True if pred(e) else s
    _, ev_in = forward(g, False, tr, lambda a, b: a and b)
    return ev_in


def _is_fork_call(x):
    x = strip(x)
    return isinstance(x, dict) and x.get('k') == 'call' and x.get('callee') in ('fork', 'vfork')


def has_fork(g):
    return any(e['ev'] == 'call' and e.get('callee') in ('fork', 'vfork') for e in g.events())


def fork_child(g):
    """{(b,i): bool}: the point is only reached in the child of a fork() made by this very context:
    every path to it crossed an edge on which `<result of fork()> == 0` holds (and the variable holding
    the result was not reassigned since).  The child of a fork is a single-threaded copy of the process."""
    fv = set()
    for e in g.events():
        if e['ev'] == 'store' and e.get('op') == '=' and 'rhs' in e and _is_fork_call(e['rhs']):
            l = strip(e['lhs'])
            if isinstance(l, dict) and l.get('k') == 'var':
                fv.add(l['name'])

    def tr(e, s):
        if s and e['ev'] == 'store':
            l = strip(e['lhs'])
            if isinstance(l, dict) and l.get('k') == 'var' and l['name'] in s:
                return s - {l['name']}
        return s

    def edge(blk, si, s):
        if not blk.term or blk.term.get('cond') is None or len(blk.succ) != 2 or blk.term.get('cls') in ('SwitchStmt', 'MethodDispatch'):
            return s
        for (op, lc, rc, l, r) in norm_cond(blk.term['cond'], si == 0):
            if op == '==' and rc == '0':
                if lc in fv:
                    s = s | {lc}
                elif isinstance(l, dict) and _is_fork_call(l):
                    s = s | {'<fork()>'}
        return s
    _, ev_in = forward(g, frozenset(), tr, lambda a, b: a & b, edge=edge)
    return {k: bool(v) for k, v in ev_in.items()}


def lock_aliases(g):
    """{local: address expression}: local pointer variables whose every assignment in g stores the address of the
    same object (`___mutex_t *l = &st->event_list_mutex;`), so that a lock call through them names that object."""
    defs = {}
    taken = set()
    for e in g.events():
        if e['ev'] == 'store':
            l = strip(e['lhs'])
            if isinstance(l, dict) and l.get('k') == 'var' and l.get('vk') not in ('global', 'staticlocal', 'func'):
                defs.setdefault(l['name'], []).append(e.get('rhs') if e.get('op') == '=' else None)
        for x in walk(e):
            if x.get('k') == 'addr':
                v = strip(x['e'])
                if isinstance(v, dict) and v.get('k') == 'var':
                    taken.add(v['name'])
    out = {}
    for name, rhss in defs.items():
        if name in taken or any(r is None for r in rhss):
            continue
        if len({canon(r) for r in rhss}) != 1:
            continue
        r = strip(rhss[0])
        if isinstance(r, dict) and r.get('k') == 'addr' and strip(r['e']).get('k') in ('member', 'var'):
            out[name] = rhss[0]
    return out


def lock_effect_in(g):
    """lock_effect() for the events of g with lock pointers held in locals resolved"""
    from ..analyses import lock_effect, LOCK_FUNCS
    al = lock_aliases(g)

    def eff(e):
        if al and e['ev'] == 'call' and e.get('callee') in LOCK_FUNCS and e.get('args'):
            a = strip(e['args'][0])
            if isinstance(a, dict) and a.get('k') == 'var' and a['name'] in al:
                e = dict(e, args=[al[a['name']]] + list(e['args'][1:]))
        return lock_effect(e)
    return eff


def locksets_in(g, entry=frozenset(), eff=None):
    """analyses.locksets with lock pointers in locals resolved"""
    eff = eff or lock_effect_in(g)

    def tr(e, S):
        for (op, lid) in eff(e):
            if op == 'lock':
                S = frozenset(x for x in S if x[0] != lid) | {(lid, e.get('loc'))}
            else:
                S = frozenset(x for x in S if x[0] != lid)
        return S

    def join(a, b):
        if a == b:
            return a
        da, db = dict(a), dict(b)
        return frozenset((l, da[l] if da[l] == db[l] else 'several') for l in da if l in db)
    _, ev_in = forward(g, frozenset((l, 'entry') for l in entry), tr, join)
    return ev_in


def exit_lockset(g, entry=frozenset()):
    """Locks held (must) when the inlined root returns."""
    ls = locksets_in(g, entry=entry)
    S = ls.get((g.exit, 0))
    if S is None:
        S = ls.get((g.exit, len(g.blocks[g.exit].events)))
    return frozenset(held(S))


# --------------------------------------------------------------------------
# guards on file-scope integer flags (for the one-way condition)
# --------------------------------------------------------------------------

def _gvar(x):
    x = strip(x)
    if isinstance(x, dict) and x.get('k') == 'var' and x.get('vk') in ('global', 'staticlocal'):
        return x['name']
    return None


def _intval(x):
    x = strip(x)
    if isinstance(x, dict) and x.get('k') == 'int':
        return x['v']
    if isinstance(x, dict) and x.get('k') == 'null':
        return 0
    if isinstance(x, dict) and x.get('k') == 'un' and x.get('op') == '-':
        v = _intval(x['e'])
        return -v if v is not None else None
    return None


def flag_guards(g, names):
    """{(b,i): frozenset((op, flag, int))}: comparisons of the file-scope variables `names` with integer
    constants that hold on every path to the point (branch outcomes and constant stores; killed by any
    other store to the variable)."""
    names = set(names)
    # ('alias', local, flag): the local holds the value the flag had when it was read and the flag was not stored since

    def tr(e, s):
        if e['ev'] == 'store':
            r = lvalue_root(e['lhs'])
            if r is not None and r.get('vk') in ('global', 'staticlocal') and r['name'] in names:
                s = frozenset(a for a in s if not (a[1] == r['name'] or (a[0] == 'alias' and a[2] == r['name'])))
                v = _intval(e.get('rhs')) if e.get('op') == '=' and 'rhs' in e and _gvar(e['lhs']) else None
                if v is not None:
                    s = s | {('==', r['name'], v)}
            l = strip(e['lhs'])
            if isinstance(l, dict) and l.get('k') == 'var' and l.get('vk') not in ('global', 'staticlocal'):
                if any(a[0] == 'alias' and a[1] == l['name'] for a in s):
                    s = frozenset(a for a in s if not (a[0] == 'alias' and a[1] == l['name']))
                src = _gvar(e.get('rhs')) if e.get('op') == '=' and 'rhs' in e else None
                if src in names:
                    s = s | {('alias', l['name'], src)}
        elif e['ev'] == 'call':
            # a local whose address is passed out may change
            for a in e.get('args', []):
                a = strip(a)
                if isinstance(a, dict) and a.get('k') == 'addr':
                    v = strip(a['e'])
                    if isinstance(v, dict) and v.get('k') == 'var' and any(x[0] == 'alias' and x[1] == v['name'] for x in s):
                        s = frozenset(x for x in s if not (x[0] == 'alias' and x[1] == v['name']))
        return s

    def edge(blk, si, s):
        if not blk.term or blk.term.get('cond') is None or len(blk.succ) != 2 or blk.term.get('cls') in ('SwitchStmt', 'MethodDispatch'):
            return s
        for (op, lc, rc, l, r) in norm_cond(blk.term['cond'], si == 0):
            if op == 'const':
                continue
            n = _gvar(l)
            if n is None:
                lv = strip(l)
                if isinstance(lv, dict) and lv.get('k') == 'var':
                    al = [a[2] for a in s if a[0] == 'alias' and a[1] == lv['name']]
                    n = al[0] if al else None
            if n in names:
                try:
                    s = s | {(op, n, int(rc))}
                except ValueError:
                    pass
        return s
    _, ev_in = forward(g, frozenset(), tr, lambda a, b: a & b, edge=edge)
    return {k: frozenset(a for a in v if a[0] != 'alias') for k, v in ev_in.items()}


def satisfies(v, atoms):
    for (op, _, c) in atoms:
        if not {'==': v == c, '!=': v != c, '<': v < c, '>': v > c, '<=': v <= c, '>=': v >= c}[op]:
            return False
    return True


def find_cycle(edges):
    """A cycle in the directed graph {(a,b)} as a list of nodes, or None."""
    graph = {}
    for (a, b) in edges:
        graph.setdefault(a, set()).add(b)
    color = {}

    def dfs(u, stack):
        color[u] = 1
        for v in sorted(graph.get(u, ()), key=str):
            if color.get(v) == 1:
                return stack + [u, v]
            if v not in color:
                c = dfs(v, stack + [u])
                if c:
                    return c
        color[u] = 2
        return None
    for u in sorted(graph, key=str):
        if u not in color:
            c = dfs(u, [])
            if c:
                return c[c.index(c[-1]):]
    return None


# --------------------------------------------------------------------------
# public API (declared in the installed headers)
# --------------------------------------------------------------------------

def public_api(prog):
    """q-names of the functions with external linkage that the installed headers (src/include/*.h) declare:
    what a user thread can call directly, with no library lock held."""
    c = getattr(prog, '_h14_public', None)
    if c is not None:
        return c
    import os
    import re
    from .. import core
    inc = os.path.join(core.REPO, 'src', 'include')
    names = set()
    if os.path.isdir(inc):
        for fn in sorted(os.listdir(inc)):
            if fn.endswith(('.h', '.h.in')):
                try:
                    txt = open(os.path.join(inc, fn), errors='replace').read()
                except OSError:
                    continue
                names |= set(re.findall(r'\b([A-Za-z_]\w*)\s*\(', txt))
    c = {f.q for f in prog.all_funcs() if f.blocks and not f.static and f.file.endswith('.c') and f.name in names}
    if len(c) < 40:
        raise AnalysisBroken('only %d public API functions found in %s' % (len(c), inc))
    prog._h14_public = c
    return c


def entry_points(prog, uncalled):
    """Everything that can be entered from outside with no library lock held: the public API, functions whose
    address is taken (handlers, method slots, thread bodies, atfork/signal handlers) and functions nobody
    calls (constructors, unused internals; `uncalled` = c14.roots_of)."""
    out = {f.q: f for f in uncalled}
    pub = public_api(prog)
    at = roles.address_taken(prog)
    for f in prog.all_funcs():
        if f.blocks and f.file.endswith('.c') and (f.q in pub or f.q in at):
            out.setdefault(f.q, f)
    return [out[q] for q in sorted(out)]
