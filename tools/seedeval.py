#!/usr/bin/env python3
"""Confirms and records one independently seeded breaking change.

usage: seedeval.py <Cxx> [--name <dirname>] [--no-confirm]

  /tmp/seed/<Cxx>      scratch worktree with the change applied
  /tmp/seed/<Cxx>-out  patch.diff demo.c run.sh notes.md (written by the sub-agent)

Steps: (1) in the scratch worktree: build, 11 pinned tests pass, demo fails with
the change and passes without it; (2) copy to /verif/seeded/<name>/; (3) apply
the patch to /repo, run every registered quick check, undo the patch; (4) write
meta.json.  Nothing is ever committed to /repo."""
import json
import os
import re
import shutil
import subprocess
import sys

VERIF = os.path.dirname(os.path.dirname(os.path.abspath(__file__)))


def sh(cmd, cwd=None, timeout=900):
    p = subprocess.run(cmd, shell=True, cwd=cwd, capture_output=True, text=True, timeout=timeout)
    return p.returncode, (p.stdout + p.stderr)


def main():
    pid = sys.argv[1]
    name = pid + '-1'
    if '--name' in sys.argv:
        name = sys.argv[sys.argv.index('--name') + 1]
    confirm = '--no-confirm' not in sys.argv
    wt = '/tmp/seed/' + pid
    if '--wt' in sys.argv:
        wt = sys.argv[sys.argv.index('--wt') + 1]
    out = "/tmp/seed/%s-out" % pid
    if "--out" in sys.argv:
        out = sys.argv[sys.argv.index("--out") + 1]
    ran = []
    res = {}
    if confirm:
        # normalise the scratch worktree to exactly the recorded patch (never git stash: it is shared between worktrees)
        sh('git checkout -- .', cwd=wt)
        rc, o = sh('git apply %s/patch.diff' % out, cwd=wt)
        if rc != 0:
            print('patch.diff does not apply to the scratch worktree:', o)
            return 1
        rc, o = sh('make -s 2>&1 | tail -3', cwd=wt)
        ran.append('git checkout -- . && git apply patch.diff && make -s (scratch worktree)')
        rc, o = sh('make -s -C test check 2>&1 | grep -E "^# (PASS|FAIL|ERROR)"', cwd=wt)
        ran.append('make -s -C test check -> ' + ' '.join(o.split()))
        res['tests_pass_with_change'] = bool(re.search(r'# PASS:\s+11', o)) and bool(re.search(r'# FAIL:\s+0', o))
        rc1, o1 = sh('sh %s/run.sh' % out, cwd=out, timeout=900)
        ran.append('run.sh with the change -> exit %d' % rc1)
        res['demo_fails_with_change'] = rc1 != 0
        sh('git apply -R %s/patch.diff' % out, cwd=wt)
        sh('make -s', cwd=wt)
        try:
            rc2, o2 = sh('sh %s/run.sh' % out, cwd=out, timeout=900)
            ran.append('run.sh without the change (git apply -R) -> exit %d' % rc2)
            res['demo_passes_without_change'] = rc2 == 0
        finally:
            sh('git apply %s/patch.diff' % out, cwd=wt)
            sh('make -s', cwd=wt)
        res['demo_output_with_change'] = o1[-1500:]
        print('confirm:', {k: v for k, v in res.items() if k != 'demo_output_with_change'})
        if not (res['tests_pass_with_change'] and res['demo_fails_with_change'] and res['demo_passes_without_change']):
            print('NOT CONFIRMED; not kept')
            print(o1[-800:])
            if not res.get('demo_passes_without_change'):
                print('--- without:', o2[-800:])
            return 1
    dst = os.path.join(VERIF, 'seeded', name)
    os.makedirs(dst, exist_ok=True)
    for fn in os.listdir(out):
        p = os.path.join(out, fn)
        if os.path.isfile(p) and os.path.getsize(p) < 400000 and not os.access(p, os.X_OK) or fn.endswith(('.sh', '.c', '.md', '.diff')):
            if os.path.isfile(p) and os.path.getsize(p) < 400000:
                shutil.copy(p, os.path.join(dst, fn))
    if '--scratch' in sys.argv:
        # detection measured on a scratch copy of the sources (never touches /repo): every property's rules
        rc, o = sh('python3 tools/selftest.py --only sd-%s -v' % name, cwd=VERIF, timeout=3000)
        own = re.findall(r'^\s+(C\d\d): (R-\S+) \[(.*?)\] (\S+)', o, flags=re.M)
        status = re.search(r'^sd-\S+\s+(\S+)', o, flags=re.M)
        caught = {}
        if own:
            caught[pid] = {'exit': 1, 'failed': ['%s [%s] %s' % f[1:] for f in own][:8], 'broken': []}
        elif status and status.group(1) == 'BROKEN':
            caught[pid] = {'exit': 2, 'failed': [], 'broken': re.findall(r'ANALYSIS-BROKEN .*', o)[:3]}
        meta = {
            'id': name, 'property': pid,
            'source': 'independent sub-agent, given only the property text and a scratch worktree',
            'needs_to_manifest': _section(os.path.join(dst, 'notes.md')),
            'ran': ran, 'confirmed': {k: v for k, v in res.items() if k != 'demo_output_with_change'},
            'demo_output_with_change': res.get('demo_output_with_change', ''),
            'caught_by': caught, 'caught': bool(caught.get(pid)) and caught[pid]['exit'] == 1,
            'first_pass': {'status': status.group(1) if status else '?', 'failed': caught.get(pid, {}).get('failed', [])},
            'caught_by_other_property': [],
        }
        json.dump(meta, open(os.path.join(dst, 'meta.json'), 'w'), indent=1)
        print('own-property check:', status.group(1) if status else '?', caught.get(pid, {}).get('failed', [])[:3])
        return 0
    # run the checks against the change
    rc, o = sh('git -C /repo status --porcelain --untracked-files=no')
    if o.strip():
        print('/repo has local modifications; refusing')
        return 2
    rc, o = sh('git -C /repo apply --check %s/patch.diff' % dst)
    if rc != 0:
        print('patch does not apply to /repo:', o)
        return 2
    sh('git -C /repo apply %s/patch.diff' % dst)
    caught = {}
    try:
        man = json.load(open(os.path.join(VERIF, 'MANIFEST.json')))
        for c in man['checks']:
            rc, o = sh('IVY_EVIDENCE_DIR=/tmp/seed/evidence-scratch ' + c['quick_cmd'], cwd=VERIF, timeout=600)
            fails = re.findall(r'FAILED (\S+) \[(.*?)\] at (\S+)', o)
            broken = re.findall(r'ANALYSIS-BROKEN .*', o)
            if rc != 0:
                caught[c['property_id']] = {'exit': rc, 'failed': ['%s [%s] %s' % f for f in fails][:8], 'broken': broken[:3]}
    finally:
        sh('git -C /repo checkout -- .')
    meta = {
        'id': name,
        'property': pid,
        'source': 'independent sub-agent, given only the property text and a scratch worktree',
        'needs_to_manifest': _section(os.path.join(dst, 'notes.md')),
        'ran': ran,
        'confirmed': {k: v for k, v in res.items() if k != 'demo_output_with_change'},
        'demo_output_with_change': res.get('demo_output_with_change', ''),
        'caught_by': caught,
        'caught': bool(caught.get(pid)) and caught[pid]['exit'] == 1,
        'caught_by_other_property': sorted(k for k, v in caught.items() if k != pid and v['exit'] == 1),
    }
    json.dump(meta, open(os.path.join(dst, 'meta.json'), 'w'), indent=1)
    print('checks that report it:')
    for k, v in caught.items():
        print('  %s exit=%d %s %s' % (k, v['exit'], v['failed'][:3], v['broken'][:1]))
    if not caught:
        print('  NONE — missed')
    return 0


def _section(p):
    if not os.path.exists(p):
        return ''
    t = open(p).read()
    m = re.search(r'(?is)#+\s*what it needs.*?\n(.*?)(\n#+\s|\Z)', t)
    return (m.group(1).strip() if m else t[:1200])[:1500]


if __name__ == '__main__':
    sys.exit(main())
