"""h11 — helpers of the C11 rules (iv_wait): role-based anchors and a small
path-sensitive scenario explorer.

Nothing in here names a static function, a local, a parameter or a file-scope
variable of iv_wait.c.  The stable anchors are

  * library/system calls and primitives: waitpid/wait4, fork, kill, malloc, free,
    iv_avl_tree_insert/_delete, iv_list_add(_tail), iv_list_del(_init), ___mutex_(un)lock;
  * typed fields: iv_wait_interest.{avl_node, events_pending, flags, pid, handler},
    wait_event.list, iv_avl_tree.root, iv_avl_node.{left,right};
  * the roots of iv_wait.c (exported API + functions whose address is installed as a
    handler), analysed with every helper of the same file inlined.

Site obligations are evaluated in every root that reaches the site (on some abstract
execution: View.reached) and are aggregated per root.

Iteration 2: the inlined root is further normalised (UnitInliner: calls through a constant
table of functions become a switch on the index; _late_call_results; _propagate_address_caches),
locks are identified by the object their argument designates (through accessor functions and
cached addresses), and the Explorer tracks heap / local-struct fields per object, splits
undecided `c ? a : b` assignments and never decides a comparison of two non-null pointers.
"""
from ..core import (AnalysisBroken, Inliner, canon, strip, walk, last_member, lvalue_steps, norm_cond,
                    forward, subst, root_var)
from ..analyses import is_call, lock_effect, locksets, held, callback_kind, lock_id, LOCK_FUNCS
from .. import interp, roles

UNIT = 'iv_wait.c'
REC = 'iv_wait_interest'
NODE = (REC, 'avl_node')
QUEUE = (REC, 'events_pending')
FLAGS = (REC, 'flags')
PID = (REC, 'pid')
EVLINK = ('wait_event', 'list')
REAP = ('wait4', 'waitpid')
ALLOC = ('malloc', 'calloc')
LINKREC = 'iv_list_head'
QHEAD = ('queue',)        # identity of "the pending queue of an interest" as a list head
TRANSFER = ('__iv_list_steal_elements', 'iv_list_splice', 'iv_list_splice_init', 'iv_list_splice_tail', 'iv_list_splice_tail_init')

NZ = 0x5A5A0000          # abstract "some non-null pointer / some positive number"
NE0 = 0x5A5A0001         # abstract "some non-zero integer of unknown sign"
ABSTRACT = (NZ, NE0)
_UNKNOWN = {'k': 'var', 'name': '$unknown', 'vk': 'local'}


def _abstract_ops(n):
    """Operations on the abstract values: only what they stand for decides a comparison (non-null / positive against
    0); two non-null pointers are not known to be equal or different, arithmetic on them is unknown."""
    if isinstance(n, list):
        return [_abstract_ops(x) for x in n]
    if not isinstance(n, dict):
        return n
    n = {k: (_abstract_ops(v) if isinstance(v, (dict, list)) else v) for k, v in n.items()}
    k = n.get('k')

    def absval(x):
        x = strip(x)
        return x['v'] if isinstance(x, dict) and x.get('k') == 'int' and x['v'] in ABSTRACT else None
    if k == 'bin' and n.get('op') not in ('&&', '||'):
        la, ra = absval(n['l']), absval(n['r'])
        if la is None and ra is None:
            return n
        if la is not None and ra is not None:
            return dict(_UNKNOWN)
        op = n['op']
        if la is not None:
            a, other = la, strip(n['r'])
        else:
            a, other, op = ra, strip(n['l']), SWAPOP.get(n['op'], n['op'])      # the abstract value on the left
        if op in interp.CMP and isinstance(other, dict) and (other.get('k') == 'null' or (other.get('k') == 'int' and other['v'] == 0)):
            if op in ('==', '!='):
                return {'k': 'int', 'v': int(op == '!=')}
            if a == NZ:
                return {'k': 'int', 'v': int(op in ('>', '>='))}
        return dict(_UNKNOWN)
    if k == 'un' and n.get('op') in ('-', '~') and absval(n['e']) is not None:
        return dict(_UNKNOWN)
    return n


SWAPOP = {'==': '==', '!=': '!=', '<': '>', '>': '<', '<=': '>=', '>=': '<='}
REAPED_PID = 4242


def lval(x):
    """the stored-to location with `*&v` (an out-parameter substituted by the address of a local) read as `v`"""
    l = strip(x)
    for _ in range(4):
        if isinstance(l, dict) and l.get('k') == 'deref':
            a = strip(l['e'])
            if isinstance(a, dict) and a.get('k') == 'addr':
                l = strip(a['e'])
                continue
        break
    return l


# --------------------------------------------------------------------------
# roots and views
# --------------------------------------------------------------------------

def _cache(prog):
    """per-program memo (kept on the Program object: no stale entries when several programs are analysed in one process)"""
    return prog.__dict__.setdefault('_h11', {})


def unit_roots(prog, unit=UNIT):
    return [f for f in roles.roots(prog) if f.file.endswith('/' + unit) or f.file == unit]


def const_fn_table(prog, unit, fnexpr):
    """`TABLE[idx]` where TABLE is a constant array of the unit initialised with function names:
    (table name, [Func per element], idx expression), else None"""
    x = strip(fnexpr)
    if not (isinstance(x, dict) and x.get('k') == 'index'):
        return None
    b = strip(x['base'])
    if not (isinstance(b, dict) and b.get('k') == 'var' and b.get('vk') in ('global', 'staticlocal') and 'const' in (b.get('type') or '')):
        return None
    g = prog.global_for(unit, b['name'])
    init = g.get('init') if g else None
    if not (isinstance(init, dict) and init.get('k') == 'init' and init.get('elems')):
        return None
    fs = []
    for el in init['elems']:
        el = strip(el)
        if isinstance(el, dict) and el.get('k') == 'addr':
            el = strip(el['e'])
        if not (isinstance(el, dict) and el.get('k') == 'var' and el.get('vk') == 'func'):
            return None
        f = prog.resolve(g.get('unit') or unit, el['name'])
        if f is None or not f.blocks:
            return None
        fs.append(f)
    return (b['name'], fs, x['idx'])


class UnitInliner(Inliner):
    """core.Inliner plus table-driven dispatch: a call through `TABLE[idx]`, TABLE a constant array of functions
    of the unit, is inlined as a `switch (idx)` over the elements of the table (the core already does the same
    for poll-method slots, as a MethodDispatch without the selecting value)."""

    def _targets(self, caller, e, known_table=None):
        t = Inliner._targets(self, caller, e, known_table)
        if t is None and 'callee' not in e and 'fnexpr' in e:
            tb = const_fn_table(self.prog, self.prog.unit_of(caller), e['fnexpr'])
            if tb is not None and not any(self.stop(f) for f in tb[1]):
                out = []
                for f in tb[1]:
                    if f not in out:
                        out.append(f)
                return out
        return t

    def _emit(self, f, ren, chain, active, depth, retvar):
        r = Inliner._emit(self, f, ren, chain, active, depth, retvar)
        if depth == 0:
            for blk in self.out.blocks.values():
                if not (blk.term and blk.term.get('cls') == 'MethodDispatch' and blk.events and blk.events[-1]['ev'] == 'enter'):
                    continue
                en = blk.events[-1]
                tb = const_fn_table(self.prog, UNIT, en.get('fnexpr')) if 'fnexpr' in en else None
                if tb is None or len(en.get('targets', [])) != len(blk.succ):
                    continue
                entry_of = dict(zip(en['targets'], blk.succ))
                if any(t.q not in entry_of for t in tb[1]):
                    continue            # a target was not inlined (recursion): keep the undirected dispatch
                blk.succ = [entry_of[t.q] for t in tb[1]]
                blk.term = {'cls': 'SwitchStmt', 'cond': en['fnexpr'] and strip(en['fnexpr'])['idx'], 'cases': list(range(len(tb[1]))),
                            'loc': blk.term.get('loc'), 'table': tb[0]}
        return r


def _late_call_results(g):
    """The inliner replaces an inlined call expression by its return temporary in the rest of the *source block*
    of the call; a call evaluated inside `c ? f(x) : y` or `a && f(x)` is consumed in a later block (the join).
    Replace those remaining call expressions too (when the call site was inlined exactly once in this graph)."""
    inst = {}
    for e in g.events():
        if e['ev'] == 'enter' and 'callee' in e:
            inst.setdefault((e['callee'], e.get('loc')), set()).add(e.get('inst'))
    rv = {}
    for e in g.events():
        if e['ev'] == 'leave' and e.get('retvar'):
            rv[e.get('inst')] = {'k': 'var', 'name': e['retvar'], 'vk': 'local', 'type': e.get('rettype')}
    repl = {k: rv[list(v)[0]] for k, v in inst.items() if len(v) == 1 and list(v)[0] in rv}
    if not repl:
        return

    def r(n):
        if n.get('k') == 'call' and (n.get('callee'), n.get('loc')) in repl:
            return {'k': 'load', 'e': dict(repl[(n.get('callee'), n.get('loc'))])}
        return None

    def has(x):
        return any(n.get('k') == 'call' and (n.get('callee'), n.get('loc')) in repl for n in walk(x))
    for blk in g.blocks.values():
        for e in blk.events:
            if e['ev'] in ('enter', 'leave', 'call'):
                continue
            for k in ('rhs', 'value', 'init'):
                if k in e and has(e[k]):
                    e[k] = subst(e[k], r)
        if blk.term and blk.term.get('cond') is not None and has(blk.term['cond']):
            blk.term = dict(blk.term, cond=subst(blk.term['cond'], r))


def _addr_path(rhs):
    """rhs = `&path`, path a variable followed by member steps of which only the first may dereference (and
    then a pointer local / parameter): (path expression, names of the locals it reads); else None"""
    r = strip(rhs)
    if not (isinstance(r, dict) and r.get('k') == 'addr'):
        return None
    path = r['e']
    cur = strip(path)
    for _ in range(8):
        if not isinstance(cur, dict):
            return None
        if cur.get('k') == 'var':
            return (path, {cur['name']} if cur.get('vk') in ('local', 'param') else set())
        if cur.get('k') == 'member':
            b = strip(cur['base'])
            if cur.get('arrow'):
                if isinstance(b, dict) and b.get('k') == 'var' and b.get('vk') in ('local', 'param'):
                    return (path, {b['name']})
                return None
            cur = b
            continue
        return None
    return None


def _propagate_address_caches(g):
    """`fl = &p->flags; ... *fl |= D;` / `q = &this->events_pending; ... q->next`: a dereference of a local that
    holds, on every path, the address of the same access path (whose variables were not redefined since) is
    replaced by that access path.  Flow-sensitive must-analysis; plain uses of the local (passing the address
    on) are left alone and resolved by View.origin()."""
    import copy as _copy
    paths = {}

    def kill(S, name):
        return frozenset(f for f in S if f[0] != name and name not in f[2])

    def tr(e, S):
        if e['ev'] == 'store':
            l = lval(e['lhs'])
            if isinstance(l, dict) and l.get('k') == 'var':
                S = kill(S, l['name'])
                if e.get('op') == '=' and 'rhs' in e and l.get('vk') == 'local':
                    ap = _addr_path(e['rhs'])
                    if ap is not None and l['name'] not in ap[1]:
                        c = canon(ap[0])
                        paths[c] = ap[0]
                        S = S | {(l['name'], c, frozenset(ap[1]))}
        elif e['ev'] == 'decl':
            S = kill(S, e['name'])
        elif e['ev'] == 'call':
            for a in e.get('args', []):
                a = strip(a)
                if isinstance(a, dict) and a.get('k') == 'addr':
                    x = strip(a['e'])
                    if isinstance(x, dict) and x.get('k') == 'var':
                        S = kill(S, x['name'])
        return S
    _, ev_in = forward(g, frozenset(), tr, lambda a, b: a & b)

    def rewrite(x, S):
        if not S:
            return x
        known = {}
        for (v, c, _) in S:
            known.setdefault(v, set()).add(c)
        known = {v: list(cs)[0] for v, cs in known.items() if len(cs) == 1}
        if not known:
            return x

        def r(n):
            k = n.get('k')
            if k == 'deref':
                b = strip(n['e'])
                if isinstance(b, dict) and b.get('k') == 'var' and b['name'] in known:
                    return _copy.deepcopy(paths[known[b['name']]])
            if k == 'member' and n.get('arrow'):
                b = strip(n['base'])
                if isinstance(b, dict) and b.get('k') == 'var' and b['name'] in known:
                    return dict(n, base=_copy.deepcopy(paths[known[b['name']]]), arrow=False)
            return None
        if not any(nd.get('k') == 'var' and nd['name'] in known for nd in walk(x)):
            return x
        return subst(x, r)
    for b, blk in g.blocks.items():
        for i, e in enumerate(blk.events):
            S = ev_in.get((b, i))
            if not S:
                continue
            for k in ('lhs', 'rhs', 'value', 'init', 'e', 'fnexpr', 'args'):
                if k in e and isinstance(e[k], (dict, list)):
                    e[k] = rewrite(e[k], S)
        S = ev_in.get((b, len(blk.events)))
        if S and blk.term and blk.term.get('cond') is not None:
            blk.term = dict(blk.term, cond=rewrite(blk.term['cond'], S))


class View:
    """A root of iv_wait.c with the helpers of the same file inlined (functions of other
    units stay opaque calls), plus definition/alias information used to see through
    cached addresses and return temporaries."""

    def __init__(self, prog, root):
        self.prog = prog
        self.root = root
        self.g = UnitInliner(prog, stop=lambda t: t.file.endswith('.c') and t.file != root.file).inline(root)
        _late_call_results(self.g)
        _propagate_address_caches(self.g)
        self.defs = {}
        self._parent = {}
        for e in self.g.events():
            if e['ev'] == 'store':
                l = lval(e['lhs'])
                if isinstance(l, dict) and l.get('k') == 'var':
                    self.defs.setdefault(l['name'], []).append(e)
                    if e.get('op') == '=' and 'rhs' in e and l.get('vk') in ('local', 'param'):
                        # the same object: a copy, the container of a node pointer, the address of a part of it
                        r = strip(e['rhs'])
                        o = None
                        if isinstance(r, dict) and r.get('k') == 'var':
                            o = r
                        elif isinstance(r, dict) and r.get('k') in ('container_of', 'addr'):
                            o = root_var(r['e'])
                        if o is not None and o.get('vk') in ('local', 'param'):
                            self._union(l['name'], o['name'])
        self._ls = None
        self._reached = None
        # lock identity: the object the argument of the lock call designates, through cached addresses and
        # accessor functions (`___mutex_lock(the_mutex())`, `m = &state.lock; ___mutex_lock(m)`)
        for e in self.g.events():
            if e['ev'] == 'call' and e.get('callee') in LOCK_FUNCS and e.get('args'):
                kind, ai = LOCK_FUNCS[e['callee']]
                if kind in ('lock', 'unlock') and ai < len(e['args']):
                    e['_lockfx'] = [(kind, lock_id(self.origin(e['args'][ai])))]

    # alias groups of locals connected by plain copies (x = y, $ret = x, param = arg)
    def _find(self, a):
        p = self._parent
        p.setdefault(a, a)
        while p[a] != a:
            p[a] = p[p[a]]
            a = p[a]
        return a

    def _union(self, a, b):
        ra, rb = self._find(a), self._find(b)
        if ra != rb:
            self._parent[max(ra, rb)] = min(ra, rb)

    def group(self, name):
        return self._find(name) if name is not None else None

    def group_of(self, x):
        """alias group of the variable an access path is rooted at (through cached addresses)"""
        v = root_var(self.origin(x))
        return self.group(v['name']) if v is not None else None

    def origin(self, x, depth=6):
        """x with a local that has a single definition `v = &path` / `v = w` replaced by that
        definition (cached addresses, copies)."""
        while depth > 0:
            depth -= 1
            v = strip(x)
            if not (isinstance(v, dict) and v.get('k') == 'var' and v.get('vk') == 'local'):
                return x
            ds = self._single_def(v['name'])
            if ds is None:
                return x
            r = strip(ds['rhs'])
            if isinstance(r, dict) and r.get('k') in ('addr', 'var'):
                x = ds['rhs']
                continue
            return x
        return x

    def _single_def(self, name):
        """the one definition `name = e` of a local (several events when the statement was duplicated by flag
        partitioning / inlined twice with the same text), else None"""
        ds = self.defs.get(name, [])
        if not ds or any(d.get('op') != '=' or 'rhs' not in d for d in ds):
            return None
        if len(ds) > 1 and len({canon(d['rhs']) for d in ds}) != 1:
            return None
        return ds[0]

    def value_origin(self, x, depth=6):
        """x with a local that has a single definition replaced by the defining expression (cached values)"""
        while depth > 0:
            depth -= 1
            v = strip(x)
            if not (isinstance(v, dict) and v.get('k') == 'var' and v.get('vk') == 'local'):
                return x
            ds = self._single_def(v['name'])
            if ds is None:
                return x
            x = ds['rhs']
        return x

    def addr_member(self, x):
        a = strip(self.origin(x))
        if isinstance(a, dict) and a.get('k') == 'addr':
            return last_member(a['e'])
        return None

    def addr_base(self, x):
        a = strip(self.origin(x))
        if isinstance(a, dict) and a.get('k') == 'addr':
            m = strip(a['e'])
            if isinstance(m, dict) and m.get('k') == 'member':
                return m['base']
        return None

    def reached(self, e):
        """False when no abstract execution of the root executes the event: the site sits behind a test that a
        constant argument of this entry point decides (one worker behind several public entry points,
        `worker(this, OP_KILL, sig)`).  Every branch the abstract state does not decide is followed both ways,
        so True is an over-approximation of reachability; when the exploration is inconclusive everything counts
        as reached."""
        if self._reached is None:
            pts = set()

            def observe(ev, env, facts, val):
                pts.add((ev.get('_b'), ev.get('_i')))
                return None
            try:
                Explorer(self.g, max_states=30000).run((self.g.entry, 0), [({}, frozenset())], observe)
                self._reached = pts
            except AnalysisBroken:
                self._reached = True
        return self._reached is True or (e.get('_b'), e.get('_i')) in self._reached

    def locksets(self):
        """must-held locks before every event: {(b, i): frozenset(lock ids)}"""
        if self._ls is None:
            def tr(e, S):
                for (op, lid) in lock_fx(e):
                    S = (S | {lid}) if op == 'lock' else (S - {lid})
                return S
            _, self._ls = forward(self.g, frozenset(), tr, lambda a, b: a & b)
        return self._ls

    def held_at(self, e):
        return set(self.locksets().get((e['_b'], e['_i'])) or ())

    # ---- role predicates ---------------------------------------------------
    def is_reap(self, e):
        return e['ev'] == 'call' and e.get('callee') in REAP

    def is_fork(self, e):
        return e['ev'] == 'call' and e.get('callee') == 'fork'

    def is_kill(self, e):
        return e['ev'] == 'call' and e.get('callee') == 'kill'

    def is_insert(self, e):
        return e['ev'] == 'call' and e.get('callee') == 'iv_avl_tree_insert' and len(e['args']) > 1 and self.addr_member(e['args'][1]) == NODE

    def is_delete(self, e):
        """a deletion of an interest from the pid set: of &X->avl_node, or of any node of the tree the interests are inserted into"""
        if not (e['ev'] == 'call' and e.get('callee') == 'iv_avl_tree_delete' and len(e['args']) > 1):
            return False
        return self.addr_member(e['args'][1]) == NODE or self.tree_of(e) in interest_trees(self.prog)

    def node_group(self, x):
        """alias group of the interest a node argument (&X->avl_node, or a node pointer) belongs to"""
        b = self.addr_base(x)
        return self.group_of(b if b is not None else x)

    def is_queue(self, e):
        """an insertion of a list element into the pending queue of an interest: at the queue head object
        (`&X->events_pending`) or relative to its first / last element (`X->events_pending.prev`)"""
        p = self.list_position(e)
        return p is not None and p[0] == QHEAD

    def queue_owner(self, e):
        """the interest expression X of a queue insertion (is_queue) into X->events_pending"""
        if self.addr_member(e['args'][1]) == QUEUE:
            return self.addr_base(e['args'][1])
        m = strip(self.value_origin(e['args'][1]))          # X->events_pending.prev, or q->prev with q = &X->events_pending
        if isinstance(m, dict) and m.get('k') == 'member' and m.get('record') == LINKREC:
            b = strip(m['base'])
            if m.get('arrow'):
                b = strip(self.origin(b))
                b = strip(b['e']) if isinstance(b, dict) and b.get('k') == 'addr' else None
            if isinstance(b, dict) and b.get('k') == 'member' and last_member(b) == QUEUE:
                return b['base']
        return None

    # ---- lists: identity of a list head, position of an insertion, derivation of a link pointer ----
    def list_object(self, o):
        """identity of the list head an object expression (not a pointer) is: QHEAD for the pending queue of an
        interest (whichever interest), ('list', name) for a list-head variable, ('field', record, field) for a
        list head embedded in another record; None when the expression is no list head"""
        o = strip(o)
        if not isinstance(o, dict):
            return None
        if o.get('k') == 'deref':
            return self.list_ptr(o['e'])
        if o.get('k') == 'member' and o.get('trecord') == LINKREC and not o.get('tptr'):
            lm = last_member(o)
            if lm == QUEUE:
                return QHEAD
            if lm == EVLINK:
                return None           # the link of a status record is an element, not a head
            return ('field',) + tuple(lm)
        if o.get('k') == 'var' and o.get('record') == LINKREC and not o.get('ptr'):
            return ('list', o['name'])
        return None

    def list_ptr(self, p):
        """identity of the list head a pointer expression designates (`&events`, `&X->events_pending`, a local that
        caches such an address, a helper's parameter bound to it), else None"""
        a = strip(self.origin(p))
        if isinstance(a, dict) and a.get('k') == 'addr':
            return self.list_object(a['e'])
        return None

    def link_of(self, x):
        """x = `H.next` / `H.prev` / `hp->next` / `hp->prev` of a list head H: (H, field), else None"""
        m = strip(self.value_origin(x))
        if not (isinstance(m, dict) and m.get('k') == 'member' and m.get('record') == LINKREC and m.get('field') in ('next', 'prev')):
            return None
        hd = self.list_ptr(m['base']) if m.get('arrow') else self.list_object(m['base'])
        return (hd, m['field']) if hd is not None else None

    def list_position(self, e):
        """(list head, end) of an element insertion `iv_list_add(_tail)(elem, pos)`: end is 'tail' when the element
        becomes the last of the list (add_tail at the head object, add after `head.prev`), 'head' when it becomes
        the first (add at the head object, add_tail before `head.next`), 'middle' otherwise; None when pos does not
        designate a known list"""
        if not (e['ev'] == 'call' and e.get('callee') in ('iv_list_add_tail', 'iv_list_add') and len(e.get('args', [])) > 1):
            return None
        tail = e['callee'] == 'iv_list_add_tail'
        hd = self.list_ptr(e['args'][1])
        if hd is not None:
            return (hd, 'tail' if tail else 'head')
        lk = self.link_of(e['args'][1])
        if lk is not None:
            hd, f = lk
            if f == 'prev' and not tail:
                return (hd, 'tail')
            if f == 'next' and tail:
                return (hd, 'head')
            return (hd, 'middle')
        return None

    def link_derivation(self, x):
        """Where a pointer to a list element comes from: (fields, heads, unknown).  `fields` are the link fields
        (`next` / `prev`) followed from a list head to reach it, through every definition of the locals involved
        (`lh = events.next; lh2 = lh->next; lh = lh2`, a pop helper's parameter and return temporary, `we->list.next`),
        `heads` the list heads the walk starts from, `unknown` what could not be interpreted."""
        fields, heads, unknown = set(), set(), []
        seen = set()
        work = [x]
        while work:
            n = strip(work.pop())
            if not isinstance(n, dict):
                continue
            k = n.get('k')
            if k in ('null', 'int'):
                continue
            if k == 'var':
                if n.get('vk') not in ('local', 'param'):
                    unknown.append(canon(n))
                    continue
                if n['name'] in seen:
                    continue
                seen.add(n['name'])
                ds = self.defs.get(n['name'], [])
                if not ds:
                    unknown.append('`%s` (no definition in the root)' % n['name'].split('@')[0])
                for d in ds:
                    if d.get('op') == '=' and 'rhs' in d:
                        work.append(d['rhs'])
                    else:
                        unknown.append(canon(d.get('lhs')))
            elif k == 'member' and n.get('record') == LINKREC and n.get('field') in ('next', 'prev'):
                fields.add(n['field'])
                b = strip(n['base'])
                hd = self.list_ptr(b) if n.get('arrow') else self.list_object(b)
                if hd is not None:
                    heads.add(hd)
                elif n.get('arrow'):
                    work.append(b)                    # a link pointer that walks on
                elif isinstance(b, dict) and b.get('k') == 'member' and last_member(b) == EVLINK:
                    work.append(b['base'])            # R->list.next: from one record to its neighbour
                else:
                    unknown.append(canon(b))
            elif k == 'addr':
                m = strip(n['e'])
                if isinstance(m, dict) and m.get('k') == 'member' and last_member(m) == EVLINK:
                    work.append(m['base'])
                elif self.list_object(m) is not None:
                    heads.add(self.list_object(m))    # a cursor that starts at the head itself (`lh = &events; while ((lh = lh->next) != &events)`)
                else:
                    unknown.append(canon(n))
            elif k == 'container_of':
                work.append(n['e'])
            elif k == 'cond':
                work += [n['a'], n['b']]
            elif k == 'assign' and n.get('op') == '=':
                work.append(n['l'])
            else:
                unknown.append(canon(n))
        return fields, heads, unknown

    def is_flag_store(self, e):
        return e['ev'] == 'store' and lvalue_steps(e['lhs'])[:1] == [FLAGS]

    def is_lookup_read(self, e):
        """a read of the tree structure by hand: tree->root, node->left, node->right"""
        if e['ev'] != 'load':
            return False
        lm = last_member(e['e'])
        return lm in (('iv_avl_tree', 'root'), ('iv_avl_node', 'left'), ('iv_avl_node', 'right'))

    def is_alloc(self, e):
        if e['ev'] != 'store' or 'rhs' not in e or e.get('op') != '=':
            return False
        r = strip(e['rhs'])
        return isinstance(r, dict) and r.get('k') == 'call' and r.get('callee') in ALLOC and lval(e['lhs']).get('k') == 'var'

    def is_wait_callback(self, e):
        return e['ev'] == 'call' and callback_kind(e) == ('callback', 'wait')

    def tree_of(self, e):
        """canonical name of the tree object of an insert/delete call"""
        return canon(self.origin(e['args'][0]))


def view(prog, root):
    c = _cache(prog)
    k = ('view', root.q)
    if k not in c:
        c[k] = View(prog, root)
    return c[k]


def views(prog):
    return [view(prog, r) for r in unit_roots(prog)]


def interest_trees(prog):
    """canonical names of the tree objects interest nodes are inserted into"""
    c = _cache(prog)
    if 'trees' not in c:
        c['trees'] = set()          # (is_delete may be asked while this is being computed)
        out = set()
        for v in views(prog):
            for e in v.g.events():
                if v.is_insert(e):
                    out.add(v.tree_of(e))
        c['trees'] = out
    return c['trees']


def contexts(prog, pred_name):
    """[(view, [site events])] for every root of iv_wait.c whose inlined body contains a site."""
    out = []
    for v in views(prog):
        p = getattr(v, pred_name)
        sites = [e for e in v.g.events() if p(e)]
        if sites:
            sites = [e for e in sites if v.reached(e)]      # a root is a context of the sites it can execute
        if sites:
            out.append((v, sites))
    return out


def role_name(prog, v):
    """Stable instance prefix of a root: the API name for exported functions, the role for handlers."""
    if not v.root.static:
        return v.root.name
    if any(v.is_reap(e) for e in v.g.events()):
        return 'reaper'
    if any(v.is_wait_callback(e) for e in v.g.events()):
        return 'delivery'
    return 'handler'


# --------------------------------------------------------------------------
# the lock of the pid set
# --------------------------------------------------------------------------

def wait_lock(prog):
    """The lock that protects the pid set: among the locks taken in iv_wait.c the one held at
    most operations on the interest tree (None when the unit takes no lock at all)."""
    memo = _cache(prog)
    if 'lock' in memo:
        return memo['lock']
    cands = set()
    for v in views(prog):
        for e in v.g.events():
            for (op, lid) in lock_fx(e):
                if op == 'lock':
                    cands.add(lid)
    best = None
    if len(cands) == 1:
        best = list(cands)[0]
    elif cands:
        score = {c: 0 for c in cands}
        for v in views(prog):
            for e in v.g.events():
                if v.is_insert(e) or v.is_delete(e) or v.is_reap(e):
                    for c in v.held_at(e) & cands:
                        score[c] += 1
        best = sorted(cands, key=lambda x: (-score[x], x))[0]
    memo['lock'] = best
    return best


def lock_fx(e):
    """[(op, lock id)] of an event of a View's graph (identity resolved by the View), else as the core names it"""
    fx = e.get('_lockfx')
    return fx if fx is not None else lock_effect(e)


def unlocks(e, lock):
    return any(op == 'unlock' and lid == lock for (op, lid) in lock_fx(e))


def takes(e, lock):
    return any(op == 'lock' and lid == lock for (op, lid) in lock_fx(e))


def held_since(g, start, lock, again=None):
    """{(b, i): bool} for the points reachable from `start`: True iff `lock` was not released on
    any path from the last execution of the start event (or of another event satisfying `again`,
    e.g. the other call site of the same operation) to the point."""
    def tr(e, s):
        if e is start:
            return True
        if s is None:
            return None
        if again is not None and again(e):
            return True
        if unlocks(e, lock):
            return False
        return s

    def jn(a, b):
        if a is None:
            return b
        if b is None:
            return a
        return a and b
    _, ev_in = forward(g, None, tr, jn, start=start['_b'])
    return {k: v for k, v in ev_in.items() if v is not None}


# --------------------------------------------------------------------------
# values of the dead flag
# --------------------------------------------------------------------------

def dead_values(prog):
    """Non-zero constants the unit stores into iv_wait_interest.flags (what the reaper writes
    to mark a terminated pid); [-1] (all bits) when there is none."""
    vals = set()
    for (f, e) in prog.writers_of(*FLAGS):
        if 'rhs' in e and e.get('op') in ('=', '|='):
            c = const_value(e['rhs'])
            if c:
                vals.add(c)
    return sorted(vals) or [-1]


def const_value(x):
    """value of a constant expression (`1 << 0`, an enumerator, a literal), else None"""
    try:
        v = interp.evaluate(x, interp.Assignment(), {})
    except (interp.Undecided, AnalysisBroken, ZeroDivisionError, KeyError, TypeError, ValueError, SyntaxError):
        return None
    return v if isinstance(v, int) else None


def clears_dead(e, deadvals):
    """a store to the flags word after which no dead bit is set: `= C`, `&= C` with C free of dead bits"""
    if 'rhs' not in e or e.get('op') not in ('=', '&='):
        return False
    if e['op'] == '=' and canon(e['rhs']) in ('0', 'NULL'):
        return True
    c = const_value(e['rhs'])
    if c is None:
        return False
    return all(d != -1 and (c & d) == 0 for d in deadvals) or c == 0


# --------------------------------------------------------------------------
# scenario explorer
# --------------------------------------------------------------------------

class Explorer:
    """Path-sensitive abstract execution of an (inlined) function over a finite domain:
    integer locals are computed concretely, pointers are 0 / NZ, everything else is
    unknown.  A branch the state does not decide is followed both ways (with the tested
    variable refined), so the result over-approximates the feasible paths.  States are
    (point, environment, facts); `observe` lets a rule add facts and fork states.  No
    repository code runs."""

    def __init__(self, g, cells=(), asg=None, call_value=None, max_states=60000, alias=None):
        self.g = g
        self.cells = set(cells)
        self.alias = alias          # name of a pointer local -> name of the object it designates (View.group); None: no heap fields
        self.asg = asg or interp.Assignment()
        self.call_value = call_value
        self.max_states = max_states

    # -- expression values -----------------------------------------------------
    def value(self, x, env):
        if x is None:
            return None

        def conc(n):
            k = n.get('k')
            if k == 'bin' and (self.asg.orders or self.asg.ints):
                # comparisons the scenario decides are decided on the source operands (before the operands
                # are replaced by what the state knows about them)
                if n.get('op') in interp.CMP:
                    o = self.asg.order(canon(n['l']), canon(n['r']))
                    if o is not None:
                        return {'k': 'int', 'v': int(interp.cmp_holds(o, n['op']))}
                elif canon(n) in self.asg.ints:
                    return {'k': 'int', 'v': self.asg.ints[canon(n)]}
            if k == 'addr' or k == 'str':
                return {'k': 'int', 'v': NZ}
            if k == 'var' and n.get('vk') == 'func':
                return {'k': 'int', 'v': NZ}
            if k == 'container_of':
                v = self.value(n['e'], env)
                if v is None:
                    return {'k': 'var', 'name': '$unknown', 'vk': 'local'}
                return {'k': 'int', 'v': NZ if v else 0}
            if k == 'member' and n.get('record') == 'iv_list_head' and n['field'] in ('next', 'prev'):
                return {'k': 'int', 'v': NZ}          # links of an initialised list are never NULL
            if k == 'member' and (n.get('record'), n['field']) in self.cells:
                v = env.get(('cell', n.get('record'), n['field']))
                if v is not None:
                    return {'k': 'int', 'v': v}
                return {'k': 'var', 'name': '$unknown', 'vk': 'local'}
            if k == 'member':
                fk = self.field_key(n)
                if fk is not None and fk in env:
                    return {'k': 'int', 'v': env[fk]}
            if k == 'assign' and n.get('op') == '=':
                # `(v = e) != NULL`: the store event precedes the test, the expression has the value of v
                return subst(n['l'], conc)
            if k == 'call' and self.call_value is not None:
                v = self.call_value(n, env)
                if v is not None:
                    return {'k': 'int', 'v': v}
            return None
        y = subst(x, conc)
        if any(n.get('k') == 'int' and n.get('v') in ABSTRACT for n in walk(y)):
            y = _abstract_ops(y)
        try:
            v = interp.evaluate(y, self.asg, env)
        except interp.Undecided:
            return None
        except (ZeroDivisionError, KeyError, TypeError, ValueError, SyntaxError):
            return None
        return v if isinstance(v, int) else None

    def field_key(self, m):
        """environment key of a scalar field `p->f` of the object a pointer local p designates:
        ('fld', object, record, field); None for anything else"""
        if self.alias is None or not (isinstance(m, dict) and m.get('k') == 'member'):
            return None
        b = strip(m['base'])
        if isinstance(b, dict) and b.get('k') == 'var' and b.get('vk') in ('local', 'param'):
            if m.get('arrow'):
                return ('fld', self.alias(b['name']), m.get('record'), m['field'])
            return ('fld', '.' + b['name'], m.get('record'), m['field'])       # a field of a local struct
        return None

    def pick(self, x, env):
        """resolve conditional expressions whose condition the state decides"""
        for _ in range(8):
            s = strip(x)
            if isinstance(s, dict) and s.get('k') == 'cond':
                c = self.value(s['c'], env)
                if c is None:
                    return None
                x = s['a'] if c else s['b']
            else:
                return x
        return x

    def refine(self, env, atoms):
        env = dict(env)
        for (op, lc, rc, l, r) in atoms:
            if op == 'const':
                continue
            lv = strip(l)
            while isinstance(lv, dict) and lv.get('k') == 'assign' and lv.get('op') == '=':
                lv = strip(lv['l'])
            if not isinstance(lv, dict):
                continue
            key = None
            if lv.get('k') == 'var' and lv.get('vk') in ('local', 'param', 'global', 'staticlocal'):
                key = lv['name']
            elif lv.get('k') == 'member' and (lv.get('record'), lv['field']) in self.cells:
                key = ('cell', lv.get('record'), lv['field'])
            keys = [key] if key is not None else []
            w = l.get('_was') if isinstance(l, dict) else None
            if isinstance(w, str):
                keys.append(w)          # the local whose read copy propagation replaced by the path it caches
            rv = self.value(r, env) if keys else None
            if rv is None:
                continue
            for key in keys:
                if key in env:
                    continue
                if op == '==':
                    env[key] = rv
                elif (op == '>' and rv >= 0) or (op == '>=' and rv > 0):
                    env[key] = NZ
                elif op == '!=' and rv == 0:
                    t = (lv.get('type') or '') if isinstance(lv, dict) else ''
                    env[key] = NZ if ('*' in t or lv.get('ptr') or lv.get('tptr')) else NE0
        return env

    # -- events ------------------------------------------------------------------
    def _apply(self, e, env):
        """generic effect of an event on the environment; returns (env, stored value)"""
        ev = e['ev']
        val = None
        if ev == 'store':
            l = lval(e['lhs'])
            key = None
            if isinstance(l, dict) and l.get('k') == 'var':
                key = l['name']
            elif lvalue_steps(e['lhs'])[:1] and lvalue_steps(e['lhs'])[0] in self.cells and len(lvalue_steps(e['lhs'])) == 1:
                st = lvalue_steps(e['lhs'])[0]
                key = ('cell', st[0], st[1])
            if key is None:
                key = self.field_key(l)
            elif self.alias is not None and isinstance(key, str) and any(isinstance(k_, tuple) and k_[0] == 'fld' for k_ in env):
                # a pointer local is redefined: unless it keeps designating the same object (a copy within its
                # alias group) what is known about the fields of the object it designated is forgotten
                src = root_var(e['rhs']) if (e.get('op') == '=' and 'rhs' in e) else None
                kept = src is not None and src.get('vk') in ('local', 'param') and self.alias(src['name']) == self.alias(key)
                if not kept:
                    o = (self.alias(key), '.' + key)
                    env = {k_: v_ for k_, v_ in env.items() if not (isinstance(k_, tuple) and k_[0] == 'fld' and k_[1] in o)}
            if key is not None:
                env = dict(env)
                op = e.get('op')
                cur = env.get(key)
                if op == '=':
                    val = self.value(e.get('rhs'), env)
                elif op in ('++', '--'):
                    val = None if cur is None else cur + (1 if op == '++' else -1)
                elif op and op.endswith('=') and 'rhs' in e:
                    rv = self.value(e['rhs'], env)
                    try:
                        val = None if (cur is None or rv is None) else int(eval('%d %s %d' % (cur, op[:-1], rv)))
                    except Exception:
                        val = None
                if val is None:
                    env.pop(key, None)
                else:
                    env[key] = val
        elif ev == 'decl':
            if 'init' in e:
                env = dict(env)
                val = self.value(e['init'], env)
                if val is None:
                    env.pop(e['name'], None)
                else:
                    env[e['name']] = val
        elif ev == 'call':
            drop = []
            for a in e.get('args', []):
                a = strip(a)
                if isinstance(a, dict) and a.get('k') == 'addr':
                    v = strip(a['e'])
                    if isinstance(v, dict) and v.get('k') == 'var' and v['name'] in env:
                        drop.append(v['name'])
                    if isinstance(v, dict) and v.get('k') == 'var':
                        drop += [k_ for k_ in env if isinstance(k_, tuple) and k_[0] == 'fld' and k_[1] == '.' + v['name']]
                    fk = self.field_key(v)
                    if fk is not None and fk in env:
                        drop.append(fk)          # the callee may write the field whose address it gets
                elif self.alias is not None and isinstance(a, dict) and a.get('k') == 'var' and a.get('vk') in ('local', 'param') \
                        and e.get('callee') != 'free':
                    o = self.alias(a['name'])     # the callee gets the object itself
                    drop += [k_ for k_ in env if isinstance(k_, tuple) and k_[0] == 'fld' and k_[1] == o]
            if 'fnexpr' in e:
                drop += [k for k in env if isinstance(k, tuple)]      # user code may change the cells
            if drop:
                env = {k: v for k, v in env.items() if k not in drop}
        return env, val

    def _split(self, e, env, depth=4):
        """`x = c ? a : b` with a condition the state does not decide is executed as the two assignments
        `x = a` (c assumed) and `x = b` (c refuted): [(event, env)]"""
        if e['ev'] == 'store' and e.get('op') == '=' and 'rhs' in e and depth > 0:
            r = strip(e['rhs'])
            if isinstance(r, dict) and r.get('k') == 'cond':
                c = self.value(r['c'], env)
                out = []
                for pol in ((True, False) if c is None else (bool(c),)):
                    en = env if c is not None else self.refine(env, norm_cond(r['c'], pol))
                    out += self._split(dict(e, rhs=r['a'] if pol else r['b']), en, depth - 1)
                return out
        return [(e, env)]

    def run(self, start, inits, observe=None, stop=None):
        """start = (block, index); inits = [(env dict, facts frozenset)].
        observe(e, env, facts, value) -> None | [(env, facts)]   (after the generic effect)
        stop(e) -> True ends the path *before* e (final kind 'stop').
        Returns [(kind, env, facts, event)] with kind in ret/exit/noreturn/stop."""
        g = self.g
        finals = []
        seen = set()
        work = []

        visits = {}

        def push(b, i, env, facts):
            visits[(b, i)] = visits.get((b, i), 0) + 1
            if visits[(b, i)] > 400:
                # widening: a local that keeps taking new values (a counter) is forgotten
                env = {k_: v_ for k_, v_ in env.items() if isinstance(k_, tuple)}
            k = (b, i, tuple(sorted(env.items(), key=repr)), facts)
            if k not in seen:
                seen.add(k)
                if len(seen) > self.max_states:
                    raise AnalysisBroken('scenario exploration of %s exceeds %d states' % (g.name, self.max_states))
                work.append((b, i, env, facts))

        fseen = set()

        def final(kind, env, facts, e):
            k = (kind, tuple(sorted(env.items(), key=repr)), facts, id(e))
            if k not in fseen:
                fseen.add(k)
                finals.append((kind, env, facts, e))

        for (env, facts) in inits:
            push(start[0], start[1], dict(env), frozenset(facts))
        while work:
            b, i, env, facts = work.pop()
            blk = g.blocks[b]
            if i < len(blk.events):
                e = blk.events[i]
                if stop is not None and stop(e):
                    final('stop', env, facts, e)
                    continue
                if e['ev'] == 'ret' and not e.get('chain'):
                    final('ret', env, facts, e)
                    continue
                for (e_eff, env1) in self._split(e, env):
                    env2, val = self._apply(e_eff, env1)
                    outs = observe(e, env2, facts, val) if observe is not None else None
                    if outs is None:
                        outs = [(env2, facts)]
                    for (en, fa) in outs:
                        push(b, i + 1, en, fa)
                continue
            if blk.noreturn:
                final('noreturn', env, facts, None)
                continue
            succ = [s for s in blk.succ]
            if b == g.exit or not succ:
                final('exit', env, facts, None)
                continue
            if len(succ) == 1:
                if succ[0] is None:
                    final('exit', env, facts, None)
                else:
                    push(succ[0], 0, env, facts)
                continue
            term = blk.term or {}
            cond = term.get('cond')
            if term.get('cls') == 'SwitchStmt' and cond is not None:
                v = self.value(cond, env)
                cases = term.get('cases', [])
                tgt = None
                if v is not None and len(cases) == len(succ):
                    hit = [s for s, cv in zip(succ, cases) if cv == v] or [s for s, cv in zip(succ, cases) if cv == 'default']
                    if hit:
                        tgt = [hit[0]]
                for s in (tgt if tgt is not None else succ):
                    if s is not None:
                        push(s, 0, env, facts)
                continue
            if cond is None or len(succ) != 2:
                for s in succ:
                    if s is not None:
                        push(s, 0, env, facts)
                continue
            facts2 = self.on_branch(cond, env, facts) if hasattr(self, 'on_branch') else facts
            v = self.value(cond, env)
            for si in (0, 1):
                if v is not None and bool(v) != (si == 0):
                    continue
                s = succ[si]
                if s is None:
                    final('exit', env, facts2, None)
                    continue
                en = env if v is not None else self.refine(env, norm_cond(cond, si == 0))
                push(s, 0, en, facts2)
        return finals


# --------------------------------------------------------------------------
# scenarios
# --------------------------------------------------------------------------

STATUS_CASES = [('exited(0)', 0x0000, 1), ('exited(3)', 0x0300, 1), ('killed(SIGTERM)', 15, 1), ('killed(SIGKILL)+core', 9 | 0x80, 1),
                ('stopped(SIGSTOP)', (19 << 8) | 0x7f, 0), ('continued', 0xffff, 0)]
CMPOPS = ('<', '>', '<=', '>=', '==', '!=')
FLIP = {'<': '>', '>': '<', '=': '='}


def status_loc(reap, v=None):
    """where a waitpid/wait4 call stores the status: ('var', name) for a local, ('cell', record, field)
    for a field (e.g. of the status record itself, or of a local struct that groups what was reaped)"""
    if len(reap.get('args', [])) > 1:
        a = strip(v.origin(reap['args'][1]) if v is not None else reap['args'][1])
        if isinstance(a, dict) and a.get('k') == 'addr':
            x = strip(a['e'])
            if isinstance(x, dict) and x.get('k') == 'var':
                return ('var', x['name'])
            if isinstance(x, dict) and x.get('k') == 'member':
                return ('cell', x.get('record'), x['field'])
    raise AnalysisBroken('reap call at %s: the status is received neither in a local variable nor in a field' % reap.get('loc'))


def pid_source(v, x, depth=4):
    """The interest whose pid the operand x denotes: the base of `X->pid`, also when x is a local all of
    whose definitions cache that same field (`pid_a = container_of(..)->pid; ... pid_a < pid_b`); None when
    x is not (known to be) the pid of an interest.  v: View (None: only the direct spelling)."""
    if last_member(x) == PID:
        m = strip(x)
        while isinstance(m, dict) and m.get('k') != 'member' and 'e' in m:
            m = strip(m['e'])
        return m.get('base') if isinstance(m, dict) and m.get('k') == 'member' else None
    s = strip(x)
    if isinstance(s, dict) and s.get('k') == 'load':
        s = strip(s['e'])
    if v is None or depth <= 0 or not (isinstance(s, dict) and s.get('k') == 'var' and s.get('vk') == 'local'):
        return None
    ds = v.defs.get(s['name'], [])
    if not ds or any(d.get('op') != '=' or 'rhs' not in d for d in ds):
        return None
    srcs = [pid_source(v, d['rhs'], depth - 1) for d in ds]
    if any(b is None for b in srcs) or len({canon(b) for b in srcs}) != 1:
        return None
    return srcs[0]


def key_nodes(g, v=None):
    """comparison nodes of g in which exactly one operand is an interest's pid (read from the interest or from
    a local that caches it): [(node, sought operand, 'l'|'r' side of the sought operand)]"""
    out, seen = [], set()

    def visit(x):
        for n in walk(x):
            if n.get('k') == 'bin' and n.get('op') in CMPOPS + ('-',) and id(n) not in seen:
                lp, rp = pid_source(v, n['l']) is not None, pid_source(v, n['r']) is not None
                if lp != rp:
                    seen.add(id(n))
                    out.append((n, n['r'] if lp else n['l'], 'r' if lp else 'l'))
    for blk in g.blocks.values():
        if blk.term and blk.term.get('cond') is not None:
            visit(blk.term['cond'])
        for e in blk.events:
            for k in ('rhs', 'value', 'init', 'args'):
                if k in e:
                    visit(e[k])
    return out


def key_assignment(g, o, v=None):
    """interp.Assignment deciding every pid comparison as (sought pid) o (node pid), o in '<=>'"""
    orders, ints = {}, {}
    sg = {'<': -1, '=': 0, '>': 1}
    for (n, sought, side) in key_nodes(g, v):
        if n['op'] == '-':
            ints[canon(n)] = sg[o] if side == 'l' else -sg[o]      # the sign of `sought - node->pid` is their order
        else:
            orders[(canon(n['l']), canon(n['r']))] = o if side == 'l' else FLIP[o]
    return interp.Assignment(orders=orders, ints=ints)


def reaper_scenario(v, reap, status, lock=None, order=None, whole=False):
    """All abstract paths of one pass of the reaper: from just after the reap call returned a
    child with wait status `status` to the next reap call / the return of the handler
    (whole=True: all paths of the whole root from its entry, status and pid unknown).
    Facts per path: ('Q', grp) status queued to interest grp; ('D', grp) pid deleted from the
    set; ('F', grp) dead flag stored; ('F0', grp) flag cleared; 'LEAK' / 'DOUBLE' for the
    status record; 'left' / 'right' descent steps; 'K' a pid comparison was evaluated."""
    g = v.g
    sloc = status_loc(reap, v)
    skey = sloc[1] if sloc[0] == 'var' else sloc
    asg = key_assignment(g, order, v) if order else interp.Assignment()
    kset = set(asg.orders)
    dset = set(asg.ints)

    def has_key(x):
        return any(n.get('k') == 'bin' and ((n.get('op') in CMPOPS and (canon(n['l']), canon(n['r'])) in kset) or
                                            (n.get('op') == '-' and canon(n) in dset)) for n in walk(x))

    ex = Explorer(g, asg=asg, cells=[sloc[1:]] if sloc[0] == 'cell' else (), alias=v.group,
                  call_value=lambda n, env: REAPED_PID if (n.get('callee') in REAP and not whole) else None)
    if order:
        ex.on_branch = lambda cond, env, facts: (facts | {'K'}) if has_key(cond) else facts

    def observe(e, env, facts, val):
        add, rem = set(), set()
        if v.is_alloc(e):
            if any(isinstance(f, tuple) and f[0] == 'own' for f in facts):
                add.add('LEAK')
            grp = v.group(lval(e['lhs'])['name'])
            rem |= {f for f in facts if isinstance(f, tuple) and f[0] == 'done' and f[1] == grp}
            add.add(('own', grp))
        elif e['ev'] == 'call' and e.get('callee') == 'free' and e.get('args'):
            grp = v.group_of(e['args'][0])
            if ('own', grp) in facts:
                rem.add(('own', grp))
                add.add(('done', grp))
            elif ('done', grp) in facts:
                add.add('DOUBLE')
        elif v.is_queue(e):
            grp = v.group_of(v.addr_base(e['args'][0])) if v.addr_base(e['args'][0]) is not None else None
            if ('own', grp) in facts:
                rem.add(('own', grp))
                add.add(('done', grp))
            elif ('done', grp) in facts:
                add.add('DOUBLE')
            add.add(('Q', v.group_of(v.queue_owner(e))))
        elif v.is_delete(e):
            add.add(('D', v.node_group(e['args'][1])))
        elif v.is_flag_store(e):
            x = ex.value(e.get('rhs'), env) if 'rhs' in e else None
            b = strip(e['lhs'])
            while isinstance(b, dict) and b.get('k') == 'member' and not b.get('arrow'):
                b = strip(b['base'])
            grp = v.group_of(b['base']) if isinstance(b, dict) and b.get('k') == 'member' else None
            add.add(('F0' if (x == 0 and e.get('op') == '=') else 'F', grp))
        elif e['ev'] == 'store' and order and 'rhs' in e and lval(e['lhs']).get('k') == 'var':
            if has_key(e['rhs']):
                add.add('K')
            r = ex.pick(e['rhs'], env)
            lm = last_member(r) if r is not None else None
            if lm == ('iv_avl_node', 'left'):
                add.add('left')
            elif lm == ('iv_avl_node', 'right'):
                add.add('right')
            elif r is None and any(last_member(n) in (('iv_avl_node', 'left'), ('iv_avl_node', 'right')) for n in walk(e['rhs']) if n.get('k') == 'member'):
                add |= {'left', 'right'}
        if lock is not None and unlocks(e, lock):
            add.add('U')
        if add or rem:
            return [(env, (facts - rem) | add)]
        return None

    if whole:
        finals = ex.run((g.entry, 0), [({}, frozenset())], observe)
    else:
        finals = ex.run((reap['_b'], reap['_i'] + 1), [({skey: status}, frozenset())], observe, stop=v.is_reap)
    out = []
    for (kind, env, facts, e) in finals:
        if kind == 'noreturn':
            continue
        if any(isinstance(f, tuple) and f[0] == 'own' for f in facts):
            facts = facts | {'LEAK'}
        out.append((kind, facts))
    return out


def flag_scenario(v, lock, deadvals, is_site):
    """All abstract paths of a root under the adversary that matters for the dead flag: the
    flag of the interest is 0 or dead at entry, and whenever the root does not hold `lock`
    the reaper may run and turn 0 into dead (observable at the next acquisition of the lock
    or at an unlocked read).  Facts: ('site-dead', loc) / ('site-live', loc): a site was
    executed while the flag was (possibly) dead / certainly clear; 'flipped', 'initdead'.
    Returns [(kind, flag value at the end, facts)]."""
    cell = ('cell',) + FLAGS
    ex = Explorer(v.g, cells={FLAGS})

    def flips(env, facts):
        outs = [(env, facts)]
        if env.get(cell) == 0:
            for d in deadvals:
                en = dict(env)
                en[cell] = d
                outs.append((en, facts | {'flipped'}))
        return outs

    def observe(e, env, facts, val):
        if lock is not None and takes(e, lock):
            if 'L' in facts:
                return None
            return [(en, fa | {'L'}) for (en, fa) in flips(env, facts)]
        if lock is not None and unlocks(e, lock):
            return [(env, facts - {'L'})]
        if e['ev'] == 'load' and last_member(e['e']) == FLAGS and 'L' not in facts:
            return flips(env, facts)
        if is_site(e):
            c = env.get(cell)
            if lock is not None and 'L' not in facts:
                c = None            # outside the lock the reaper may have set the flag since it was last read
            return [(env, facts | {('site-live' if c == 0 else 'site-dead', e.get('loc'))})]
        return None

    inits = [({cell: 0}, frozenset())] + [({cell: d}, frozenset({'initdead'})) for d in deadvals]
    finals = ex.run((v.g.entry, 0), inits, observe)
    return [(kind, env.get(cell), facts) for (kind, env, facts, e) in finals if kind != 'noreturn']


def unlink_scenario(v, classify):
    """All abstract paths of a root; classify(e) gives ('take', grp) where a status record is designated as the
    first / next element of a queue and ('unlink', grp) where it is unlinked (grp = alias group of the record
    variable; None for other events).  The root owns the record from the first of the two.  Returns the source
    locations of those sites whose record is not freed before the next record is taken into the same variable /
    the return."""
    ex = Explorer(v.g)

    def observe(e, env, facts, val):
        c = classify(e)
        if c is not None:
            kind, grp = c
            if kind == 'take' and val == 0:
                return None                       # container_of(NULL): nothing was taken
            old = {f for f in facts if isinstance(f, tuple) and f[0] == 'own' and f[1] == grp}
            other = 'unlink' if kind == 'take' else 'take'
            if old and all(f[2] == other for f in old):
                # the record designated before is now unlinked / the node unlinked before is now designated:
                # still the same record
                return [(env, (facts - old) | {('own', grp, 'both', f[3]) for f in old})]
            leaks = {('leak', f[3]) for f in old}
            return [(env, (facts - old) | leaks | {('own', grp, kind, e.get('loc'))})]
        if e['ev'] == 'call' and e.get('callee') == 'free' and e.get('args'):
            g_ = v.group_of(e['args'][0])
            old = {f for f in facts if isinstance(f, tuple) and f[0] == 'own' and f[1] == g_}
            if old:
                return [(env, facts - old)]
        return None
    bad = set()
    for (kind, env, facts, e) in ex.run((v.g.entry, 0), [({}, frozenset())], observe):
        for f in facts:
            if isinstance(f, tuple) and (f[0] == 'leak' or (f[0] == 'own' and kind != 'noreturn')):
                bad.add(f[-1])
    return bad


# --------------------------------------------------------------------------
# order of the statuses of one child (seeded round 3)
# --------------------------------------------------------------------------

def queue_inserts(prog):
    """Every way a status record enters the pending queue of an interest, in every root of the unit:
    [(view, event, end)], end in 'tail' / 'head' / 'middle' (View.list_position), or for a link field of the queue
    head written by hand: `X->events_pending.prev = &R->list` makes R the last ('tail'), `.next = &R->list` the first."""
    out = []
    for v in views(prog):
        for e in v.g.events():
            end = None
            if v.is_queue(e):
                end = v.list_position(e)[1]
            elif e['ev'] == 'store' and e.get('op') == '=' and 'rhs' in e:
                l = strip(e['lhs'])
                if isinstance(l, dict) and l.get('k') == 'member' and l.get('record') == LINKREC and l.get('field') in ('next', 'prev') \
                        and (v.list_ptr(l['base']) if l.get('arrow') else v.list_object(l['base'])) == QHEAD \
                        and v.addr_member(e['rhs']) == EVLINK:
                    end = 'tail' if l['field'] == 'prev' else 'head'
            if end is not None and v.reached(e):
                out.append((v, e, end))
    return out


def list_fill(v, hd, depth=4):
    """How the elements of the list head `hd` of a root relate to the pending queue they were taken from: a set of
    signs, +1 when they stand in queue order (first of the queue first), -1 when reversed.  The queue itself is +1;
    a list filled by __iv_list_steal_elements / iv_list_splice* from a list L has the order of L; a list filled
    element by element (`iv_list_add(_tail)(x, &hd)`, x taken from the head / the tail of L) has the order of L iff
    elements taken from the head are appended at the tail or elements taken from the tail are put at the head."""
    if hd == QHEAD:
        return {1}
    if depth <= 0:
        raise AnalysisBroken('delivery: chain of list transfers too long')
    signs = set()
    for e in v.g.events():
        if not v.reached(e):
            continue
        if e['ev'] == 'call' and e.get('callee') in TRANSFER and len(e.get('args', [])) == 2 and v.list_ptr(e['args'][1]) == hd:
            src = v.list_ptr(e['args'][0])
            if src is None:
                raise AnalysisBroken('delivery: %s at %s moves the elements of an unknown list' % (e['callee'], e.get('loc')))
            if src != hd:
                signs |= list_fill(v, src, depth - 1)
            continue
        pos = v.list_position(e)
        if pos is not None and pos[0] == hd:
            fields, heads, unknown = v.link_derivation(e['args'][0])
            heads = heads - {hd}
            if not heads and not unknown:
                continue                  # an element of the list itself put back
            if unknown or len(fields) != 1 or pos[1] == 'middle':
                raise AnalysisBroken('delivery: cannot tell where the element inserted at %s comes from' % e.get('loc'))
            s = 1 if (('next' in fields) == (pos[1] == 'tail')) else -1
            for h2 in heads:
                signs |= {s * t for t in list_fill(v, h2, depth - 1)}
            continue
        if e['ev'] == 'store' and e.get('op') == '=' and 'rhs' in e:
            # the head's links written by hand: `hd.next = L.next; hd.prev = L.prev` takes over the elements of L in order
            l = strip(e['lhs'])
            if isinstance(l, dict) and l.get('k') == 'member' and l.get('record') == LINKREC and l.get('field') in ('next', 'prev') \
                    and (v.list_ptr(l['base']) if l.get('arrow') else v.list_object(l['base'])) == hd:
                fields, heads, unknown = v.link_derivation(e['rhs'])
                heads = heads - {hd}
                if not heads:
                    continue              # unlinking / re-initialising within the list
                if unknown or fields != {l['field']}:
                    raise AnalysisBroken('delivery: cannot interpret the list surgery at %s' % e.get('loc'))
                for h2 in heads:
                    signs |= list_fill(v, h2, depth - 1)
    return signs


def deliveries(prog):
    """[(view, designation event, need, how)] for every root that calls a wait handler: each designation
    `R = container_of(link, wait_event, list)` of a record whose fields are handed to the handler, with
    need = +1 when the handler sees the statuses in the order they arrived iff the queue holds the oldest status
    first (records taken from the head of a list in queue order, or from the tail of a reversed one), -1 when it
    needs the newest first."""
    out = []
    for v, cbs in contexts(prog, 'is_wait_callback'):
        g = v.g
        given = set()
        for e in cbs:
            for a in e.get('args', []):
                for n in walk(v.value_origin(a)):
                    if n.get('k') == 'member' and n.get('record') == EVLINK[0] and n.get('arrow'):
                        rv = root_var(n['base'])
                        if rv is not None:
                            given.add(v.group(rv['name']))
        conts = [e for e in g.events() if e['ev'] == 'store' and 'rhs' in e and lval(e['lhs']).get('k') == 'var'
                 and isinstance(strip(e['rhs']), dict) and strip(e['rhs']).get('k') == 'container_of'
                 and (strip(e['rhs']).get('record'), strip(e['rhs']).get('member')) == EVLINK and v.reached(e)]
        # (when the handler is given copies only, `st = we->status; free(we); handler(.., st, ..)` with a status local
        #  defined more than once, every record the root designates counts: a delivery root designates records to deliver them)
        mine = [c for c in conts if v.group(lval(c['lhs'])['name']) in given] or conts
        if not mine:
            raise AnalysisBroken('delivery: no status record designated from a list (container_of(.., wait_event, list)) reaches the '
                                 'handler call in %s' % v.root.name)
        for c in mine:
            fields, heads, unknown = v.link_derivation(strip(c['rhs'])['e'])
            if unknown or not heads or len(fields) != 1:
                raise AnalysisBroken('delivery: cannot tell from which end of which list the record designated at %s is taken (%s)'
                                     % (c.get('loc'), ', '.join(unknown) or ('links followed: %s' % sorted(fields))))
            take = 1 if 'next' in fields else -1
            for hd in sorted(heads):
                signs = list_fill(v, hd)
                if not signs:
                    raise AnalysisBroken('delivery: the list the record designated at %s is taken from is never filled from an interest queue'
                                         % c.get('loc'))
                for s in sorted(signs):
                    how = 'takes the %s element of %s' % ('first' if take == 1 else 'last',
                                                         'the queue' if hd == QHEAD else
                                                         'a list that holds the queued records in %s order' % ('queue' if s == 1 else 'reversed'))
                    out.append((v, c, take * s, how))
    return out


# --------------------------------------------------------------------------
# the key of a node of the pid set (R-C11h)
# --------------------------------------------------------------------------

TREE_LINKS = (('iv_avl_tree', 'root'), ('iv_avl_node', 'left'), ('iv_avl_node', 'right'))


def pid_store(v, e):
    """the alias group of the interest X of a store to X->pid (also through a cached address of the field), else None;
    ANALYSIS-BROKEN when the key of an interest that cannot be identified is written"""
    if e['ev'] != 'store' or lvalue_steps(e['lhs'])[:1] != [PID]:
        return None
    l = lval(e['lhs'])
    g = v.group_of(l['base']) if isinstance(l, dict) and l.get('k') == 'member' else None
    if g is None:
        raise AnalysisBroken('%s: store to the pid of an interest that cannot be identified (%s)' % (e.get('loc'), canon(e['lhs'])))
    return g


def _from_tree(e):
    """a local is (re)defined from the links of the tree (`an = TREE.root`, `an = an->left`): the group it belongs to
    designates a node that is in the set"""
    if e['ev'] != 'store' or e.get('op') != '=' or 'rhs' not in e:
        return False
    l = lval(e['lhs'])
    if not (isinstance(l, dict) and l.get('k') == 'var'):
        return False
    return any(n.get('k') == 'member' and last_member(n) in TREE_LINKS for n in walk(e['rhs']))


def key_changes(v, lock):
    """May-analysis of one inlined root.  Facts: ('L', grp) the interest of alias group grp is in the pid set (the root
    inserted it, or reached it by walking the tree) and was not deleted since; ('D', grp, loc) its pid field was
    stored to at loc while it was in the set and it was not deleted / filed anew since.  A 'D' fact is a violation at
    every point where the order of the set is relied upon by anybody: the set's lock is released, the tree is walked
    from its root, a node is inserted (the comparator reads the keys on the way down), the root returns.
    Returns (number of pid stores, number of insertions, [(store loc, loc of the point, what)])."""
    g = v.g

    def tr(e, S):
        if v.is_insert(e):
            grp = v.node_group(e['args'][1])
            return frozenset(f for f in S if not (f[0] == 'D' and f[1] == grp)) | {('L', grp)}
        if v.is_delete(e):
            grp = v.node_group(e['args'][1])
            return frozenset(f for f in S if f[1] != grp)
        if _from_tree(e):
            return S | {('L', v.group(lval(e['lhs'])['name']))}
        grp = pid_store(v, e)
        if grp is not None and ('L', grp) in S:
            return S | {('D', grp, e['loc'])}
        return S
    instate, ev_in = forward(g, frozenset(), tr, lambda a, b: a | b)
    viol, nst, nins = [], 0, 0
    for blk in g.blocks.values():
        for i, e in enumerate(blk.events):
            S = ev_in.get((e['_b'], e['_i']))
            if pid_store(v, e) is not None:
                nst += 1
            if v.is_insert(e):
                nins += 1
            if not S:
                continue
            what = None
            if lock is not None and unlocks(e, lock):
                what = 'the lock of the set is released'
            elif e['ev'] == 'load' and last_member(e['e']) == TREE_LINKS[0]:
                what = 'the tree is searched'
            elif v.is_insert(e):
                what = 'a node is inserted (compared against the nodes on its way down)'
            if what:
                mine = v.node_group(e['args'][1]) if v.is_insert(e) else None
                for f in sorted(S, key=str):
                    if f[0] == 'D' and f[1] != mine:
                        viol.append((f[2], e['loc'], what))
    for f in sorted(instate.get(g.exit) or (), key=str):
        if f[0] == 'D':
            viol.append((f[2], v.root.loc, 'the function returns'))
    return nst, nins, viol


def fork_value_flow(v):
    """from_fork(x): the expression x is the value fork() returned, through copies of locals and fields of records that
    are not interests (flow-insensitive closure, as for the reaped pid in R-C11.cmp)"""
    rg, rf = set(), set()
    stores = [e for e in v.g.events() if e['ev'] == 'store' and e.get('op') == '=' and 'rhs' in e]

    def from_fork(x):
        x = strip(x)
        if isinstance(x, dict) and x.get('k') == 'load':
            x = strip(x['e'])
        if not isinstance(x, dict):
            return False
        if x.get('k') == 'call':
            return x.get('callee') == 'fork'
        if x.get('k') == 'assign' and x.get('op') == '=':
            return from_fork(x.get('r')) or from_fork(x.get('l'))
        if x.get('k') == 'var':
            return v.group(x['name']) in rg
        if x.get('k') == 'member':
            return last_member(x) in rf
        return False
    for _ in range(6):
        n0 = (len(rg), len(rf))
        for e in stores:
            if not from_fork(e['rhs']):
                continue
            l = lval(e['lhs'])
            if l.get('k') == 'var':
                rg.add(v.group(l['name']))
            elif l.get('k') == 'member' and last_member(l) != PID and l.get('record') != REC:
                rf.add(last_member(l))
        if (len(rg), len(rf)) == n0:
            break
    return from_fork


def keyed_by_fork(v, forks):
    """Must-analysis from the fork() call(s) of a root: the set of interests (alias groups) whose pid field holds the
    value the most recent fork() returned.  [(insertion event reachable from a fork, ok)]"""
    g = v.g
    from_fork = fork_value_flow(v)

    def tr(e, S):
        if v.is_fork(e):
            return frozenset()
        if S is None:
            return None
        grp = pid_store(v, e)
        if grp is not None:
            return (S | {grp}) if (e.get('op') == '=' and 'rhs' in e and from_fork(e['rhs'])) else (S - {grp})
        return S

    def jn(a, b):
        if a is None:
            return b
        if b is None:
            return a
        return a & b
    _, ev_in = forward(g, None, tr, jn)
    out = []
    for e in g.events():
        if v.is_insert(e):
            S = ev_in.get((e['_b'], e['_i']))
            if S is not None:
                out.append((e, v.node_group(e['args'][1]) in S))
    return out
